import Mathlib.Tactic
import Mathlib.LinearAlgebra.Matrix.PosDef
import Mathlib.Analysis.Complex.Order
import Mathlib.LinearAlgebra.Matrix.Notation

/-!
C08 / C13: deterministic Gaussian channels `σ ↦ X σ Xᵀ + Y` (piquasso/instructions/channels.py,
`DeterministicGaussianChannel`).

* `channel_keeps_uncertainty`: the DOCUMENTED condition `Y + iΩ - i X Ω Xᵀ ⪰ 0` makes the channel map every covariance
  matrix satisfying the uncertainty relation `σ + iΩ ⪰ 0` to one satisfying it (any number of modes, any `X`, `Y`, `Ω`);
* `code_condition_insufficient`: the condition that `_validate` actually evaluates, `Y - iΩ - i X Ω Xᵀ ⪰ 0`, accepts the
  single-mode time reversal `X = diag(1, -1)`, `Y = 0`, which maps the two-mode squeezed vacuum with
  `cosh 2r = 5/3`, `sinh 2r = 4/3` (a physical state) to a covariance matrix that violates the uncertainty relation;
* `code_condition_rejects_identity`: and it rejects the identity channel `X = 1`, `Y = 0`.
Matrices are complex; a real `X` has `Xᴴ = Xᵀ`.
-/
namespace Pq.GaussChannel
open Matrix
open scoped ComplexOrder

/-- documented channel condition ⇒ the uncertainty relation is preserved -/
theorem channel_keeps_uncertainty {n : Type} [Fintype n] [DecidableEq n] (σ X Y Ω : Matrix n n ℂ)
    (hσ : (σ + Complex.I • Ω).PosSemidef)
    (hch : (Y + Complex.I • Ω - Complex.I • (X * Ω * Xᴴ)).PosSemidef) :
    (X * σ * Xᴴ + Y + Complex.I • Ω).PosSemidef := by
  have h1 := hσ.mul_mul_conjTranspose_same X
  have h2 := h1.add hch
  have e : X * σ * Xᴴ + Y + Complex.I • Ω
      = X * (σ + Complex.I • Ω) * Xᴴ + (Y + Complex.I • Ω - Complex.I • (X * Ω * Xᴴ)) := by
    simp only [Matrix.mul_add, Matrix.add_mul, Matrix.mul_smul, Matrix.smul_mul]
    abel
  rw [e]; exact h2

/-- single-mode symplectic form -/
def Ω1 : Matrix (Fin 2) (Fin 2) ℂ := !![0, 1; -1, 0]
/-- two-mode symplectic form, `xpxp` order -/
def Ω2 : Matrix (Fin 4) (Fin 4) ℂ := !![0, 1, 0, 0; -1, 0, 0, 0; 0, 0, 0, 1; 0, 0, -1, 0]
/-- time reversal of one mode -/
def Xrev : Matrix (Fin 2) (Fin 2) ℂ := !![1, 0; 0, -1]
/-- the same channel acting on the second of two modes -/
def Xrev2 : Matrix (Fin 4) (Fin 4) ℂ := !![1, 0, 0, 0; 0, 1, 0, 0; 0, 0, 1, 0; 0, 0, 0, -1]
/-- two-mode squeezed vacuum, `cosh 2r = 5/3`, `sinh 2r = 4/3` (vacuum covariance = 1) -/
noncomputable def tmsv : Matrix (Fin 4) (Fin 4) ℂ :=
  !![5/3, 0, 4/3, 0; 0, 5/3, 0, -4/3; 4/3, 0, 5/3, 0; 0, -4/3, 0, 5/3]

theorem Xrev_conjTranspose : Xrevᴴ = Xrev := by
  ext i j
  fin_cases i <;> fin_cases j <;> simp [Xrev, Matrix.conjTranspose_apply]

theorem Xrev2_conjTranspose : Xrev2ᴴ = Xrev2 := by
  ext i j
  fin_cases i <;> fin_cases j <;> simp [Xrev2, Matrix.conjTranspose_apply]

/-- the inequality evaluated by the code accepts time reversal (`Y = 0`) … -/
theorem code_condition_accepts_time_reversal :
    ((0 : Matrix (Fin 2) (Fin 2) ℂ) - Complex.I • Ω1 - Complex.I • (Xrev * Ω1 * Xrevᴴ)).PosSemidef := by
  have e : ((0 : Matrix (Fin 2) (Fin 2) ℂ) - Complex.I • Ω1 - Complex.I • (Xrev * Ω1 * Xrevᴴ)) = 0 := by
    rw [Xrev_conjTranspose]
    ext i j
    fin_cases i <;> fin_cases j <;>
      simp [Ω1, Xrev]
  rw [e]; exact Matrix.PosSemidef.zero

/-- … the input state is physical … -/
theorem tmsv_physical : (tmsv + Complex.I • Ω2).PosSemidef := by
  have hH : (tmsv + Complex.I • Ω2)ᴴ = tmsv + Complex.I • Ω2 := by
    ext i j
    fin_cases i <;> fin_cases j <;>
      simp [tmsv, Ω2, Matrix.conjTranspose_apply]
  have hsq : (tmsv + Complex.I • Ω2) * (tmsv + Complex.I • Ω2)
      = (10/3 : ℂ) • (tmsv + Complex.I • Ω2) := by
    ext i j
    fin_cases i <;> fin_cases j <;>
      simp [tmsv, Ω2, Matrix.mul_apply, Fin.sum_univ_four, Complex.ext_iff] <;> norm_num
  have h0 : (0 : ℂ) ≤ (3/10 : ℂ) := by
    rw [Complex.le_def]; norm_num
  have hp := (Matrix.posSemidef_conjTranspose_mul_self (tmsv + Complex.I • Ω2)).smul h0
  rw [hH, hsq, smul_smul] at hp
  have : (3/10 : ℂ) * (10/3) = 1 := by norm_num
  rwa [this, one_smul] at hp

/-- … and the output violates the uncertainty relation -/
theorem code_condition_insufficient :
    ¬ (Xrev2 * tmsv * Xrev2ᴴ + 0 + Complex.I • Ω2).PosSemidef := by
  intro h
  have eM : Xrev2 * tmsv * Xrev2ᴴ + 0 + Complex.I • Ω2
      = !![5/3, Complex.I, 4/3, 0; -Complex.I, 5/3, 0, 4/3;
           4/3, 0, 5/3, Complex.I; 0, 4/3, -Complex.I, 5/3] := by
    rw [Xrev2_conjTranspose]
    ext i j
    fin_cases i <;> fin_cases j <;>
      simp [Xrev2, tmsv, Ω2] <;> norm_num
  rw [eM] at h
  have hq := h.dotProduct_mulVec_nonneg ![1, Complex.I, -1, -Complex.I]
  have e : star ![1, Complex.I, -1, -Complex.I] ⬝ᵥ
      (!![5/3, Complex.I, 4/3, 0; -Complex.I, 5/3, 0, 4/3;
           4/3, 0, 5/3, Complex.I; 0, 4/3, -Complex.I, 5/3] *ᵥ ![1, Complex.I, -1, -Complex.I])
      = (-8/3 : ℂ) := by
    simp [Matrix.mulVec, dotProduct, Fin.sum_univ_four, Complex.ext_iff]
    norm_num
  rw [e, Complex.le_def] at hq
  norm_num at hq

/-- the inequality evaluated by the code rejects the identity channel, which the documented one accepts -/
theorem code_condition_rejects_identity :
    ¬ ((0 : Matrix (Fin 2) (Fin 2) ℂ) - Complex.I • Ω1 - Complex.I • ((1 : Matrix (Fin 2) (Fin 2) ℂ) * Ω1 * (1 : Matrix (Fin 2) (Fin 2) ℂ)ᴴ)).PosSemidef ∧
    ((0 : Matrix (Fin 2) (Fin 2) ℂ) + Complex.I • Ω1 - Complex.I • ((1 : Matrix (Fin 2) (Fin 2) ℂ) * Ω1 * (1 : Matrix (Fin 2) (Fin 2) ℂ)ᴴ)).PosSemidef := by
  constructor
  · intro h
    have hq := h.dotProduct_mulVec_nonneg ![1, -Complex.I]
    have e : star ![1, -Complex.I] ⬝ᵥ
        (((0 : Matrix (Fin 2) (Fin 2) ℂ) - Complex.I • Ω1 - Complex.I • ((1 : Matrix (Fin 2) (Fin 2) ℂ) * Ω1 * (1 : Matrix (Fin 2) (Fin 2) ℂ)ᴴ)) *ᵥ ![1, -Complex.I]) = (-4 : ℂ) := by
      simp [Ω1, Matrix.mulVec, dotProduct, Fin.sum_univ_two, Complex.ext_iff]
      norm_num
    rw [e, Complex.le_def] at hq
    norm_num at hq
  · have e : ((0 : Matrix (Fin 2) (Fin 2) ℂ) + Complex.I • Ω1 - Complex.I • ((1 : Matrix (Fin 2) (Fin 2) ℂ) * Ω1 * (1 : Matrix (Fin 2) (Fin 2) ℂ)ᴴ)) = 0 := by
      simp
    rw [e]; exact Matrix.PosSemidef.zero

end Pq.GaussChannel
