import Mathlib.Tactic
import Mathlib.Analysis.SpecialFunctions.Trigonometric.Arctan
import Mathlib.Analysis.SpecialFunctions.Complex.Arg
import Mathlib.LinearAlgebra.Matrix.Block
import PqVerif.Model.ClementsMat

/-!
C15 (Clements): the elimination schedule keeps its zeros and nulls the whole strict lower triangle for every
input matrix; the nulling angles null; the phase commutation identity and its list-level bookkeeping
(`_commute`); `inverse_clements ∘ clements` reproduces the unitary.
-/
namespace Pq.ClementsLaws
open Matrix Pq.ClementsSched Pq.ClementsMat


/-- the combinatorial soundness of the schedule, for every dimension the property quantifies over (and more) -/
theorem schedOk_small : ∀ d, d ≤ 8 → schedOk d = true := by
  intro d hd; interval_cases d <;> decide



section Elimination
variable {d : Nat}

theorem emb_row0 (m0 : Nat) (G : Matrix (Fin 2) (Fin 2) ℂ) (a b : Fin d) (ha : a.val = m0) :
    emb m0 G a b = if b.val = m0 then G 0 0 else if b.val = m0 + 1 then G 0 1 else 0 := by
  unfold emb
  have : a = b ↔ b.val = m0 := by rw [← ha]; exact ⟨fun h => h ▸ rfl, fun h => Fin.ext h.symm⟩
  by_cases h1 : b.val = m0 <;> by_cases h2 : b.val = m0 + 1 <;> simp [ha, h1, h2, this]

theorem emb_row1 (m0 : Nat) (G : Matrix (Fin 2) (Fin 2) ℂ) (a b : Fin d) (ha : a.val = m0 + 1) :
    emb m0 G a b = if b.val = m0 then G 1 0 else if b.val = m0 + 1 then G 1 1 else 0 := by
  unfold emb
  have : a = b ↔ b.val = m0 + 1 := by rw [← ha]; exact ⟨fun h => h ▸ rfl, fun h => Fin.ext h.symm⟩
  by_cases h1 : b.val = m0 <;> by_cases h2 : b.val = m0 + 1 <;> simp [ha, h1, h2, this]

theorem emb_row_other (m0 : Nat) (G : Matrix (Fin 2) (Fin 2) ℂ) (a b : Fin d) (ha0 : a.val ≠ m0)
    (ha1 : a.val ≠ m0 + 1) : emb m0 G a b = if a = b then 1 else 0 := by
  unfold emb; simp [ha0, ha1]

theorem emb_col0 (m0 : Nat) (G : Matrix (Fin 2) (Fin 2) ℂ) (a b : Fin d) (hb : b.val = m0) :
    emb m0 G a b = if a.val = m0 then G 0 0 else if a.val = m0 + 1 then G 1 0 else 0 := by
  unfold emb
  have : a = b ↔ a.val = m0 := by rw [← hb]; exact ⟨fun h => h ▸ rfl, fun h => Fin.ext h⟩
  by_cases h1 : a.val = m0 <;> by_cases h2 : a.val = m0 + 1 <;> simp [hb, h1, h2, this]

theorem emb_col1 (m0 : Nat) (G : Matrix (Fin 2) (Fin 2) ℂ) (a b : Fin d) (hb : b.val = m0 + 1) :
    emb m0 G a b = if a.val = m0 then G 0 1 else if a.val = m0 + 1 then G 1 1 else 0 := by
  unfold emb
  have : a = b ↔ a.val = m0 + 1 := by rw [← hb]; exact ⟨fun h => h ▸ rfl, fun h => Fin.ext h⟩
  by_cases h1 : a.val = m0 <;> by_cases h2 : a.val = m0 + 1 <;> simp [hb, h1, h2, this]

theorem emb_col_other (m0 : Nat) (G : Matrix (Fin 2) (Fin 2) ℂ) (a b : Fin d) (hb0 : b.val ≠ m0)
    (hb1 : b.val ≠ m0 + 1) : emb m0 G a b = if a = b then 1 else 0 := by
  unfold emb; simp [hb0, hb1]

/-- sum of a function supported on the two indices `m0, m0+1` -/
theorem sum_two (m0 : Nat) (h : m0 + 1 < d) (f : Fin d → ℂ)
    (hf : ∀ k : Fin d, k.val ≠ m0 → k.val ≠ m0 + 1 → f k = 0) :
    ∑ k, f k = f ⟨m0, by omega⟩ + f ⟨m0 + 1, h⟩ := by
  apply Finset.sum_eq_add
  · intro h; simp [Fin.ext_iff] at h
  · intro c _ hc
    apply hf
    · intro h'; exact hc.1 (Fin.ext h')
    · intro h'; exact hc.2 (Fin.ext h')
  · intro h'; exact absurd (Finset.mem_univ _) h'
  · intro h'; exact absurd (Finset.mem_univ _) h'

theorem emb_mul_apply (m0 : Nat) (h : m0 + 1 < d) (G : Matrix (Fin 2) (Fin 2) ℂ)
    (U : Matrix (Fin d) (Fin d) ℂ) (i j : Fin d) :
    (emb m0 G * U : Matrix (Fin d) (Fin d) ℂ) i j =
      if i.val = m0 then G 0 0 * U ⟨m0, by omega⟩ j + G 0 1 * U ⟨m0 + 1, h⟩ j
      else if i.val = m0 + 1 then G 1 0 * U ⟨m0, by omega⟩ j + G 1 1 * U ⟨m0 + 1, h⟩ j
      else U i j := by
  rw [Matrix.mul_apply]
  by_cases h0 : i.val = m0
  · rw [if_pos h0, sum_two m0 h]
    · simp [emb_row0 m0 G i _ h0]
    · intro k hk0 hk1; simp [emb_row0 m0 G i _ h0, hk0, hk1]
  · rw [if_neg h0]
    by_cases h1 : i.val = m0 + 1
    · rw [if_pos h1, sum_two m0 h]
      · simp [emb_row1 m0 G i _ h1]
      · intro k hk0 hk1; simp [emb_row1 m0 G i _ h1, hk0, hk1]
    · rw [if_neg h1]
      simp [emb_row_other m0 G i _ h0 h1]

theorem mul_emb_apply (m0 : Nat) (h : m0 + 1 < d) (G : Matrix (Fin 2) (Fin 2) ℂ)
    (U : Matrix (Fin d) (Fin d) ℂ) (i j : Fin d) :
    (U * emb m0 G : Matrix (Fin d) (Fin d) ℂ) i j =
      if j.val = m0 then U i ⟨m0, by omega⟩ * G 0 0 + U i ⟨m0 + 1, h⟩ * G 1 0
      else if j.val = m0 + 1 then U i ⟨m0, by omega⟩ * G 0 1 + U i ⟨m0 + 1, h⟩ * G 1 1
      else U i j := by
  rw [Matrix.mul_apply]
  by_cases h0 : j.val = m0
  · rw [if_pos h0, sum_two m0 h]
    · simp [emb_col0 m0 G _ j h0]
    · intro k hk0 hk1; simp [emb_col0 m0 G _ j h0, hk0, hk1]
  · rw [if_neg h0]
    by_cases h1 : j.val = m0 + 1
    · rw [if_pos h1, sum_two m0 h]
      · simp [emb_col1 m0 G _ j h1]
      · intro k hk0 hk1; simp [emb_col1 m0 G _ j h1, hk0, hk1]
    · rw [if_neg h1]
      simp [emb_col_other m0 G _ j h0 h1]


theorem entry_eq (U : Matrix (Fin d) (Fin d) ℂ) (i j : Nat) (hi : i < d) (hj : j < d) :
    entry U i j = U ⟨i, hi⟩ ⟨j, hj⟩ := by
  unfold entry; rw [dif_pos ⟨hi, hj⟩]

theorem entry_of_not (U : Matrix (Fin d) (Fin d) ℂ) (i j : Nat) (h : ¬ (i < d ∧ j < d)) :
    entry U i j = 0 := dif_neg h

theorem step_preserves (Z : List (Nat × Nat)) (s : Step) (G : Matrix (Fin 2) (Fin 2) ℂ)
    (U : Matrix (Fin d) (Fin d) ℂ) (hok : stepOk d Z s = true)
    (hZ : ∀ p ∈ Z, entry U p.1 p.2 = 0) : ∀ p ∈ Z, entry (applyStep s G U) p.1 p.2 = 0 := by
  rintro ⟨p1, p2⟩ hp
  unfold stepOk at hok
  simp only [Bool.and_eq_true, decide_eq_true_eq, List.all_eq_true, Bool.or_eq_true, Bool.not_eq_true',
    List.contains_iff_mem] at hok
  obtain ⟨⟨⟨⟨hm, -⟩, -⟩, -⟩, hall⟩ := hok
  have hpz := hall _ hp
  by_cases hin : p1 < d ∧ p2 < d
  swap
  · exact entry_of_not _ _ _ hin
  simp only
  rw [entry_eq _ _ _ hin.1 hin.2]
  have hm' : s.m0 < d := by omega
  have hU := hZ _ hp
  simp only at hU
  unfold applyStep
  cases hside : s.side
  · simp only
    rw [emb_mul_apply _ hm]
    simp only [touches, partner, hside] at hpz
    by_cases h0 : p1 = s.m0
    · have hpart : (s.m0 + 1, p2) ∈ Z := by simpa [h0] using hpz
      have h2 := hZ _ hpart
      rw [h0] at hU
      simp only at h2
      rw [entry_eq _ _ _ hm hin.2] at h2
      rw [entry_eq _ _ _ hm' hin.2] at hU
      simp [h0, h2, hU]
    · by_cases h1 : p1 = s.m0 + 1
      · have hpart : (s.m0, p2) ∈ Z := by simpa [h1] using hpz
        have h2 := hZ _ hpart
        rw [h1] at hU
        simp only at h2
        rw [entry_eq _ _ _ hm' hin.2] at h2
        rw [entry_eq _ _ _ hm hin.2] at hU
        simp [h1, h2, hU]
      · rw [entry_eq _ _ _ hin.1 hin.2] at hU
        simp [h0, h1, hU]
  · simp only
    rw [mul_emb_apply _ hm]
    simp only [touches, partner, hside] at hpz
    by_cases h0 : p2 = s.m0
    · have hpart : (p1, s.m0 + 1) ∈ Z := by simpa [h0] using hpz
      have h2 := hZ _ hpart
      rw [h0] at hU
      simp only at h2
      rw [entry_eq _ _ _ hin.1 hm] at h2
      rw [entry_eq _ _ _ hin.1 hm'] at hU
      simp [h0, h2, hU]
    · by_cases h1 : p2 = s.m0 + 1
      · have hpart : (p1, s.m0) ∈ Z := by simpa [h1] using hpz
        have h2 := hZ _ hpart
        rw [h1] at hU
        simp only at h2
        rw [entry_eq _ _ _ hin.1 hm'] at h2
        rw [entry_eq _ _ _ hin.1 hm] at hU
        simp [h1, h2, hU]
      · rw [entry_eq _ _ _ hin.1 hin.2] at hU
        simp [h0, h1, hU]


theorem elim_aux : ∀ (steps : List Step) (Gs : List (Matrix (Fin 2) (Fin 2) ℂ)) (Z : List (Nat × Nat))
    (U : Matrix (Fin d) (Fin d) ℂ),
    Gs.length = steps.length →
    schedOkAux d Z steps = true →
    (∀ p ∈ Z, entry U p.1 p.2 = 0) →
    (∀ k (hk : k < steps.length),
      entry (runSteps (steps.take (k + 1)) (Gs.take (k + 1)) U) (steps[k]).ti (steps[k]).tj = 0) →
    ∀ p : Nat × Nat, (p ∈ Z ∨ ∃ s ∈ steps, p = (s.ti, s.tj)) → entry (runSteps steps Gs U) p.1 p.2 = 0 := by
  intro steps
  induction steps with
  | nil =>
    intro Gs Z U _ _ hZ _ p hp
    rcases hp with hp | ⟨s, hs, _⟩
    · have : runSteps [] Gs U = U := by cases Gs <;> rfl
      rw [this]; exact hZ p hp
    · simp at hs
  | cons s ss ih =>
    intro Gs Z U hlen hok hZ hnull p hp
    cases Gs with
    | nil => simp at hlen
    | cons G Gs' =>
      have hlen' : Gs'.length = ss.length := by simpa using hlen
      simp only [schedOkAux, Bool.and_eq_true] at hok
      show entry (runSteps ss Gs' (applyStep s G U)) p.1 p.2 = 0
      apply ih Gs' ((s.ti, s.tj) :: Z) (applyStep s G U) hlen' hok.2
      · intro q hq
        rcases List.mem_cons.1 hq with rfl | hq
        · have := hnull 0 (by simp)
          simpa [runSteps] using this
        · exact step_preserves Z s G U hok.1 hZ q hq
      · intro k hk
        have := hnull (k + 1) (by simpa using hk)
        simpa [runSteps] using this
      · rcases hp with hp | ⟨t, ht, rfl⟩
        · exact Or.inl (List.mem_cons_of_mem _ hp)
        · rcases List.mem_cons.1 ht with rfl | ht
          · exact Or.inl (List.mem_cons_self ..)
          · exact Or.inr ⟨t, ht, rfl⟩

end Elimination

/-- if every step nulls its target entry (whatever mixing matrices are used), the matrix after the whole
schedule has a zero strict lower triangle — for every input matrix -/
theorem elimination (d : Nat) (hok : schedOk d = true) (U0 : Matrix (Fin d) (Fin d) ℂ)
    (Gs : List (Matrix (Fin 2) (Fin 2) ℂ)) (hlen : Gs.length = (schedule d).length)
    (hnull : ∀ k (hk : k < (schedule d).length),
      entry (runSteps ((schedule d).take (k + 1)) (Gs.take (k + 1)) U0) ((schedule d)[k]).ti ((schedule d)[k]).tj = 0) :
    ∀ i j : Fin d, j < i → runSteps (schedule d) Gs U0 i j = 0 := by
  intro i j hij
  unfold schedOk at hok
  simp only [Bool.and_eq_true, List.all_eq_true, List.mem_range, List.any_eq_true, beq_iff_eq] at hok
  obtain ⟨⟨h1, h2⟩, -⟩ := hok
  obtain ⟨s, hs, hsi, hsj⟩ := h2 i.val i.isLt j.val hij
  have := elim_aux (schedule d) Gs [] U0 hlen h1 (by simp) hnull (i.val, j.val)
    (Or.inr ⟨s, hs, by rw [hsi, hsj]⟩)
  simp only at this
  rw [entry_eq _ _ _ i.isLt j.isLt] at this
  exact this

theorem bsMat_conjTranspose (theta phi : ℝ) :
    (bsMat theta phi)ᴴ =
      !![Complex.exp (-(Complex.I * phi)) * Real.cos theta, Complex.exp (-(Complex.I * phi)) * Real.sin theta;
         -(Real.sin theta : ℂ), (Real.cos theta : ℂ)] := by
  have hE : (starRingEnd ℂ) (Complex.exp (Complex.I * phi)) = Complex.exp (-(Complex.I * phi)) := by
    rw [← Complex.exp_conj]; simp
  ext i j; fin_cases i <;> fin_cases j <;>
    simp [bsMat, Matrix.conjTranspose_apply, hE, -Complex.ofReal_cos, -Complex.ofReal_sin, Complex.conj_ofReal]

theorem two_by_two_unitary (E' E c s : ℂ) (hE : E' * E = 1) (hcs : c ^ 2 + s ^ 2 = 1) :
    !![E' * c, E' * s; -s, c] * !![E * c, -s; E * s, c] = (1 : Matrix (Fin 2) (Fin 2) ℂ) := by
  ext i j; fin_cases i <;> fin_cases j <;>
    simp [Matrix.mul_apply, Fin.sum_univ_two]
  · linear_combination (c^2+s^2) * hE + hcs
  · ring
  · ring
  · linear_combination hcs

theorem exp_neg_mul_exp (x : ℂ) : Complex.exp (-x) * Complex.exp x = 1 := by
  rw [← Complex.exp_add]; simp

/-- `BS(θ, φ)` is unitary -/
theorem bsMat_unitary (theta phi : ℝ) : (bsMat theta phi)ᴴ * bsMat theta phi = 1 := by
  rw [bsMat_conjTranspose]
  exact two_by_two_unitary _ _ _ _ (exp_neg_mul_exp _) (by exact_mod_cast Real.cos_sq_add_sin_sq theta)

theorem cos_sin_arctan (t : ℝ) :
    Real.sin (Real.arctan t) = t * Real.cos (Real.arctan t) ∧ Real.cos (Real.arctan t) ≠ 0 := by
  have h := Real.cos_arctan_pos t
  refine ⟨?_, h.ne'⟩
  have := Real.tan_arctan t
  rw [Real.tan_eq_sin_div_cos] at this
  field_simp at this
  linarith

/-- `_get_angles` for a row step: with `r = other / elim = -b / a`, `θ = arctan |r|`, `φ = arg r`, the lower
entry of `BS(θ, φ) · (a, b)ᵀ` vanishes (`a` = the code's `matrix_element_to_eliminate`, `-b` = its
`matrix_element_above`) -/
theorem nulling_row (a b : ℂ) (ha : a ≠ 0) :
    let r := -b / a
    (bsMat (Real.arctan ‖r‖) (Complex.arg r)) 1 0 * a + (bsMat (Real.arctan ‖r‖) (Complex.arg r)) 1 1 * b = 0 := by
  intro r
  have hr : (‖r‖ : ℂ) * Complex.exp (Complex.I * Complex.arg r) = r := by
    rw [mul_comm Complex.I]; exact Complex.norm_mul_exp_arg_mul_I r
  have hra : r * a = -b := by simp only [r]; field_simp
  obtain ⟨hs, _⟩ := cos_sin_arctan ‖r‖
  have hs' : (Real.sin (Real.arctan ‖r‖) : ℂ) = ‖r‖ * Real.cos (Real.arctan ‖r‖) := by
    exact_mod_cast hs
  simp only [bsMat, Matrix.of_apply, Matrix.cons_val', Matrix.cons_val_zero, Matrix.cons_val_one,
    Matrix.cons_val_fin_one]
  rw [hs']
  linear_combination (Real.cos (Real.arctan ‖r‖) : ℂ) * a * hr + (Real.cos (Real.arctan ‖r‖) : ℂ) * hra

/-- `_get_angles` for a column step: with `r = other / elim = b / a` (`a` the entry in column `m0+1`, `b` the
one in column `m0`), the entry in column `m0` of `(b, a) · BS(θ, φ)†` vanishes -/
theorem nulling_col (a b : ℂ) (ha : a ≠ 0) :
    let r := b / a
    b * (bsMat (Real.arctan ‖r‖) (Complex.arg r))ᴴ 0 0 + a * (bsMat (Real.arctan ‖r‖) (Complex.arg r))ᴴ 1 0 = 0 := by
  intro r
  have hr : (‖r‖ : ℂ) * Complex.exp (Complex.I * Complex.arg r) = r := by
    rw [mul_comm Complex.I]; exact Complex.norm_mul_exp_arg_mul_I r
  have hE := exp_neg_mul_exp (Complex.I * Complex.arg r)
  have hra : r * a = b := by simp only [r]; field_simp
  obtain ⟨hs, _⟩ := cos_sin_arctan ‖r‖
  have hs' : (Real.sin (Real.arctan ‖r‖) : ℂ) = ‖r‖ * Real.cos (Real.arctan ‖r‖) := by
    exact_mod_cast hs
  rw [bsMat_conjTranspose]
  simp only [Matrix.of_apply, Matrix.cons_val', Matrix.cons_val_zero, Matrix.cons_val_one,
    Matrix.cons_val_fin_one]
  rw [hs']
  -- b E' c - a t c = 0; t = E' r; 
  have ht : (‖r‖ : ℂ) = Complex.exp (-(Complex.I * Complex.arg r)) * r := by
    linear_combination (-(‖r‖ : ℂ)) * hE + Complex.exp (-(Complex.I * Complex.arg r)) * hr
  rw [ht]
  linear_combination (-(Real.cos (Real.arctan ‖r‖) : ℂ)) * Complex.exp (-(Complex.I * Complex.arg r)) * hra

/-- `e x = exp (i π x)` -/
noncomputable def ePi (x : ℝ) : ℂ := Complex.exp (Complex.I * (Real.pi * x))

theorem ePi_add (x y : ℝ) : ePi (x + y) = ePi x * ePi y := by
  unfold ePi; rw [← Complex.exp_add]; congr 1; push_cast; ring

theorem ePi_one : ePi 1 = -1 := by
  unfold ePi; rw [mul_comm]; simp [Complex.exp_pi_mul_I]

theorem ePi_neg_mul (x : ℝ) : ePi (-x) * ePi x = 1 := by
  rw [← ePi_add]; simp [ePi]

theorem ePi_mod2R (x : ℝ) : ePi (mod2R x) = ePi x := by
  unfold ePi mod2R
  have : Complex.I * (Real.pi * ((x - 2 * (⌊x / 2⌋ : ℝ) : ℝ) : ℂ)) =
      Complex.I * (Real.pi * x) - (⌊x / 2⌋ : ℤ) * (2 * Real.pi * Complex.I) := by
    push_cast; ring
  rw [this, Complex.exp_sub, Complex.exp_int_mul_two_pi_mul_I, div_one]

/-- the phase commutation `BS(θ, φ)⁻¹ D = D' BS(θ', φ')` with the angles of `_get_commute_angles`
(angles in units of π; `np.mod(·, 2π)` is `mod2R`) -/
theorem commute_identity (theta phi phi1 phi2 : ℝ) :
    let r := commuteAnglesR theta phi phi1 phi2
    let e (x : ℝ) : ℂ := Complex.exp (Complex.I * (Real.pi * x))
    (bsMat (Real.pi * theta) (Real.pi * phi))ᴴ * Matrix.diagonal ![e phi1, e phi2] =
      Matrix.diagonal ![e r.2.2.1, e r.2.2.2] * bsMat (Real.pi * r.1) (Real.pi * r.2.1) := by
  intro r e
  have he : e = ePi := rfl
  rw [he, bsMat_conjTranspose]
  have h1 : Complex.exp (-(Complex.I * ((Real.pi * phi : ℝ) : ℂ))) = ePi (-phi) := by
    unfold ePi; congr 1; push_cast; ring
  have h2 : ∀ x : ℝ, Complex.exp (Complex.I * ((Real.pi * x : ℝ) : ℂ)) = ePi x := by
    intro x; unfold ePi; push_cast; rfl
  have hn := ePi_neg_mul phi
  have hn2 := ePi_neg_mul phi2
  have hsub : ∀ x y : ℝ, ePi (x - y) = ePi x * ePi (-y) := by
    intro x y; rw [← ePi_add]; ring_nf
  simp only [r, commuteAnglesR, bsMat, h1, h2, ePi_mod2R, ePi_add, ePi_one, hsub]
  generalize ePi (-phi) = En at *
  generalize ePi phi = E at *
  generalize ePi (-phi2) = Fn at *
  generalize ePi phi2 = F at *
  generalize ePi phi1 = F1 at *
  generalize (Real.cos (Real.pi * theta) : ℂ) = c
  generalize (Real.sin (Real.pi * theta) : ℂ) = s
  ext i j; fin_cases i <;> fin_cases j <;>
    simp [Matrix.mul_apply, Matrix.diagonal_apply]
  · linear_combination (-(En * c * F1)) * hn2
  · ring
  · linear_combination (-(s * F1)) * hn2
  · ring


theorem castList (l : List ℚ) : l.map (fun q => (q : ℝ)) = List.map (fun q : ℚ => (q : ℝ)) l := by
  induction l with
  | nil => rfl
  | cons a l ih => simpa using ih

theorem mod2_cast (q : ℚ) : ((mod2 q : ℚ) : ℝ) = mod2R (q : ℝ) := by
  unfold mod2 mod2R
  have : ((q / 2).floor : ℤ) = ⌊((q : ℝ) / 2)⌋ := by
    have h := Rat.floor_cast (α := ℝ) (q / 2)
    rw [Rat.cast_div] at h
    have h0 : (q / 2).floor = ⌊q / 2⌋ := rfl
    rw [h0, ← h]; norm_num
  push_cast
  rw [this]

theorem BSq_toR_mk (m : Nat) (t p : ℚ) : BSq.toR ⟨m, t, p⟩ = ⟨m, (t : ℝ), (p : ℝ)⟩ := rfl

theorem commute_cast_aux (bss : List BSq) : ∀ (acc : List BSq) (ph : List ℚ),
    let F := bss.foldl (fun (acc : List BSq × List Rat) bs =>
      let ph := acc.2
      let (t, p, p1, p2) := commuteAngles bs.theta bs.phi (ph.getD bs.m0 0) (ph.getD (bs.m0 + 1) 0)
      (acc.1 ++ [⟨bs.m0, t, p⟩], (ph.set bs.m0 p1).set (bs.m0 + 1) p2)) (acc, ph)
    (F.1.map BSq.toR, F.2.map (fun q : ℚ => (q : ℝ))) =
      (bss.map BSq.toR).foldl (fun (acc : List BSr × List ℝ) bs =>
        let ph := acc.2
        let r := commuteAnglesR bs.theta bs.phi (ph.getD bs.m0 0) (ph.getD (bs.m0 + 1) 0)
        (acc.1 ++ [⟨bs.m0, r.1, r.2.1⟩], (ph.set bs.m0 r.2.2.1).set (bs.m0 + 1) r.2.2.2))
        (acc.map BSq.toR, ph.map (fun q : ℚ => (q : ℝ))) := by
  induction bss with
  | nil => intro acc ph; rfl
  | cons b bs ih =>
    intro acc ph
    simp only [List.foldl_cons, List.map_cons]
    have := ih (acc ++ [⟨b.m0, b.theta, mod2 (ph.getD b.m0 0 - ph.getD (b.m0 + 1) 0 + 1)⟩])
      ((ph.set b.m0 (mod2 (ph.getD (b.m0 + 1) 0 - b.phi + 1))).set (b.m0 + 1) (ph.getD (b.m0 + 1) 0))
    simp only [commuteAngles] at this ⊢
    rw [this]
    congr 1
    have hg : ∀ n, (List.map (fun q : ℚ => (q : ℝ)) ph).getD n 0 = ((ph.getD n 0 : ℚ) : ℝ) := by
      intro n; simp [List.getD_eq_getElem?_getD, List.getElem?_map]
      cases ph[n]? <;> simp
    simp only [commuteAnglesR, BSq.toR, List.map_append, List.map_cons, List.map_nil, List.map_set, hg,
      mod2_cast]
    push_cast
    rfl

/-- the executable `Rat` bookkeeping is the real one on rational multiples of π -/
theorem commute_cast (phases : List Rat) (bss : List BSq) :
    ((commute phases bss).1.map BSq.toR, (commute phases bss).2.map (fun q => (q : ℝ))) =
      commuteR (phases.map (fun q => (q : ℝ))) (bss.map BSq.toR) := by
  rw [castList, castList]
  exact commute_cast_aux bss [] phases

section CommuteCorrect
variable {d : Nat}

theorem emb_conjTranspose (m0 : Nat) (G : Matrix (Fin 2) (Fin 2) ℂ) :
    (emb (d := d) m0 G)ᴴ = emb m0 Gᴴ := by
  ext a b
  rw [Matrix.conjTranspose_apply]
  by_cases ha0 : a.val = m0
  · rw [emb_row0 m0 _ a b ha0, emb_col0 m0 _ b a ha0]
    by_cases hb0 : b.val = m0
    · simp [hb0]
    · by_cases hb1 : b.val = m0 + 1 <;> simp [hb0, hb1]
  · by_cases ha1 : a.val = m0 + 1
    · rw [emb_row1 m0 _ a b ha1, emb_col1 m0 _ b a ha1]
      by_cases hb0 : b.val = m0
      · simp [hb0]
      · by_cases hb1 : b.val = m0 + 1 <;> simp [hb0, hb1]
    · rw [emb_row_other m0 _ a b ha0 ha1, emb_col_other m0 _ b a ha0 ha1]
      by_cases hab : a = b
      · simp [hab]
      · have : ¬ b = a := fun h => hab h.symm
        simp [hab, this]

theorem emb_diag_commute (m0 : Nat) (h : m0 + 1 < d) (A B : Matrix (Fin 2) (Fin 2) ℂ) (f g : Fin d → ℂ)
    (hAB : A * Matrix.diagonal ![f ⟨m0, by omega⟩, f ⟨m0 + 1, h⟩] =
      Matrix.diagonal ![g ⟨m0, by omega⟩, g ⟨m0 + 1, h⟩] * B)
    (hfg : ∀ k : Fin d, k.val ≠ m0 → k.val ≠ m0 + 1 → f k = g k) :
    emb m0 A * Matrix.diagonal f = Matrix.diagonal g * emb m0 B := by
  have h00 : A 0 0 * f ⟨m0, by omega⟩ = g ⟨m0, by omega⟩ * B 0 0 := by
    simpa using congrFun (congrFun hAB 0) 0
  have h01 : A 0 1 * f ⟨m0 + 1, h⟩ = g ⟨m0, by omega⟩ * B 0 1 := by
    simpa using congrFun (congrFun hAB 0) 1
  have h10 : A 1 0 * f ⟨m0, by omega⟩ = g ⟨m0 + 1, h⟩ * B 1 0 := by
    simpa using congrFun (congrFun hAB 1) 0
  have h11 : A 1 1 * f ⟨m0 + 1, h⟩ = g ⟨m0 + 1, h⟩ * B 1 1 := by
    simpa using congrFun (congrFun hAB 1) 1
  ext a b
  rw [Matrix.mul_diagonal, Matrix.diagonal_mul]
  have hfin0 : ∀ k : Fin d, k.val = m0 → k = ⟨m0, by omega⟩ := fun k hk => Fin.ext hk
  have hfin1 : ∀ k : Fin d, k.val = m0 + 1 → k = ⟨m0 + 1, h⟩ := fun k hk => Fin.ext hk
  by_cases ha0 : a.val = m0
  · rw [emb_row0 m0 _ a b ha0, emb_row0 m0 _ a b ha0, hfin0 a ha0]
    by_cases hb0 : b.val = m0
    · rw [if_pos hb0, if_pos hb0, hfin0 b hb0]; exact h00
    · by_cases hb1 : b.val = m0 + 1
      · rw [if_neg hb0, if_neg hb0, if_pos hb1, if_pos hb1, hfin1 b hb1]; exact h01
      · simp [hb0, hb1]
  · by_cases ha1 : a.val = m0 + 1
    · rw [emb_row1 m0 _ a b ha1, emb_row1 m0 _ a b ha1, hfin1 a ha1]
      by_cases hb0 : b.val = m0
      · rw [if_pos hb0, if_pos hb0, hfin0 b hb0]; exact h10
      · by_cases hb1 : b.val = m0 + 1
        · rw [if_neg hb0, if_neg hb0, if_pos hb1, if_pos hb1, hfin1 b hb1]; exact h11
        · simp [hb0, hb1]
    · rw [emb_row_other m0 _ a b ha0 ha1, emb_row_other m0 _ a b ha0 ha1]
      by_cases hab : a = b
      · subst hab; simp [hfg a ha0 ha1]
      · simp [hab]

theorem phaseDiag_eq (ph : List ℝ) :
    phaseDiag (d := d) ph = Matrix.diagonal (fun i : Fin d => ePi (ph.getD i.val 0)) := rfl

theorem getD_set_set (ph : List ℝ) (m0 : Nat) (x y : ℝ) (h : m0 + 1 < ph.length) (k : Nat) :
    ((ph.set m0 x).set (m0 + 1) y).getD k 0 =
      if k = m0 + 1 then y else if k = m0 then x else ph.getD k 0 := by
  simp only [List.getD_eq_getElem?_getD, List.getElem?_set, List.length_set]
  by_cases h1 : k = m0 + 1
  · subst h1; simp [h]
  · by_cases h0 : k = m0
    · subst h0; simp [show k < ph.length by omega]
    · have h1' : ¬ m0 + 1 = k := fun h => h1 h.symm
      have h0' : ¬ m0 = k := fun h => h0 h.symm
      simp [h1, h0, h1', h0']

theorem commute_step (ph : List ℝ) (hlen : ph.length = d) (b : BSr) (hm : b.m0 + 1 < d) :
    (bsOf (d := d) b)ᴴ * phaseDiag ph =
      phaseDiag ((ph.set b.m0 (commuteAnglesR b.theta b.phi (ph.getD b.m0 0) (ph.getD (b.m0 + 1) 0)).2.2.1).set
          (b.m0 + 1) (commuteAnglesR b.theta b.phi (ph.getD b.m0 0) (ph.getD (b.m0 + 1) 0)).2.2.2) *
        bsOf ⟨b.m0, (commuteAnglesR b.theta b.phi (ph.getD b.m0 0) (ph.getD (b.m0 + 1) 0)).1,
          (commuteAnglesR b.theta b.phi (ph.getD b.m0 0) (ph.getD (b.m0 + 1) 0)).2.1⟩ := by
  have key := commute_identity b.theta b.phi (ph.getD b.m0 0) (ph.getD (b.m0 + 1) 0)
  generalize hr : commuteAnglesR b.theta b.phi (ph.getD b.m0 0) (ph.getD (b.m0 + 1) 0) = r at key ⊢
  have key' : (bsMat (Real.pi * b.theta) (Real.pi * b.phi))ᴴ *
        Matrix.diagonal ![ePi (ph.getD b.m0 0), ePi (ph.getD (b.m0 + 1) 0)] =
      Matrix.diagonal ![ePi r.2.2.1, ePi r.2.2.2] * bsMat (Real.pi * r.1) (Real.pi * r.2.1) := key
  unfold bsOf
  rw [emb_conjTranspose, phaseDiag_eq, phaseDiag_eq]
  have hm' : b.m0 + 1 < ph.length := by omega
  apply emb_diag_commute b.m0 hm
  · simp only [getD_set_set ph b.m0 _ _ hm']
    simpa using key'
  · intro k hk0 hk1
    simp only [getD_set_set ph b.m0 _ _ hm', if_neg hk0, if_neg hk1]

/-- one step of `commuteR` -/
noncomputable def stepR (acc : List BSr × List ℝ) (bs : BSr) : List BSr × List ℝ :=
  let ph := acc.2
  let r := commuteAnglesR bs.theta bs.phi (ph.getD bs.m0 0) (ph.getD (bs.m0 + 1) 0)
  (acc.1 ++ [⟨bs.m0, r.1, r.2.1⟩], (ph.set bs.m0 r.2.2.1).set (bs.m0 + 1) r.2.2.2)

theorem commuteR_eq (ph : List ℝ) (bss : List BSr) : commuteR ph bss = bss.foldl stepR ([], ph) := rfl

theorem foldl_stepR_acc (bss : List BSr) : ∀ (acc : List BSr) (ph : List ℝ),
    bss.foldl stepR (acc, ph) = (acc ++ (bss.foldl stepR ([], ph)).1, (bss.foldl stepR ([], ph)).2) := by
  induction bss with
  | nil => intro acc ph; simp
  | cons b bs ih =>
    intro acc ph
    simp only [List.foldl_cons]
    have e1 : stepR (acc, ph) b = (acc ++ [⟨b.m0, (commuteAnglesR b.theta b.phi (ph.getD b.m0 0) (ph.getD (b.m0 + 1) 0)).1,
        (commuteAnglesR b.theta b.phi (ph.getD b.m0 0) (ph.getD (b.m0 + 1) 0)).2.1⟩],
        (ph.set b.m0 (commuteAnglesR b.theta b.phi (ph.getD b.m0 0) (ph.getD (b.m0 + 1) 0)).2.2.1).set (b.m0 + 1)
          (commuteAnglesR b.theta b.phi (ph.getD b.m0 0) (ph.getD (b.m0 + 1) 0)).2.2.2) := rfl
    have e2 : stepR ([], ph) b = ([⟨b.m0, (commuteAnglesR b.theta b.phi (ph.getD b.m0 0) (ph.getD (b.m0 + 1) 0)).1,
        (commuteAnglesR b.theta b.phi (ph.getD b.m0 0) (ph.getD (b.m0 + 1) 0)).2.1⟩],
        (ph.set b.m0 (commuteAnglesR b.theta b.phi (ph.getD b.m0 0) (ph.getD (b.m0 + 1) 0)).2.2.1).set (b.m0 + 1)
          (commuteAnglesR b.theta b.phi (ph.getD b.m0 0) (ph.getD (b.m0 + 1) 0)).2.2.2) := rfl
    rw [e1, e2, ih, ih [_]]
    simp

theorem commuteR_cons (ph : List ℝ) (b : BSr) (bs : List BSr) :
    commuteR ph (b :: bs) =
      (⟨b.m0, (commuteAnglesR b.theta b.phi (ph.getD b.m0 0) (ph.getD (b.m0 + 1) 0)).1,
          (commuteAnglesR b.theta b.phi (ph.getD b.m0 0) (ph.getD (b.m0 + 1) 0)).2.1⟩ ::
        (commuteR ((ph.set b.m0 (commuteAnglesR b.theta b.phi (ph.getD b.m0 0) (ph.getD (b.m0 + 1) 0)).2.2.1).set
          (b.m0 + 1) (commuteAnglesR b.theta b.phi (ph.getD b.m0 0) (ph.getD (b.m0 + 1) 0)).2.2.2) bs).1,
       (commuteR ((ph.set b.m0 (commuteAnglesR b.theta b.phi (ph.getD b.m0 0) (ph.getD (b.m0 + 1) 0)).2.2.1).set
          (b.m0 + 1) (commuteAnglesR b.theta b.phi (ph.getD b.m0 0) (ph.getD (b.m0 + 1) 0)).2.2.2) bs).2) := by
  rw [commuteR_eq, List.foldl_cons]
  have e2 : stepR ([], ph) b = ([⟨b.m0, (commuteAnglesR b.theta b.phi (ph.getD b.m0 0) (ph.getD (b.m0 + 1) 0)).1,
      (commuteAnglesR b.theta b.phi (ph.getD b.m0 0) (ph.getD (b.m0 + 1) 0)).2.1⟩],
      (ph.set b.m0 (commuteAnglesR b.theta b.phi (ph.getD b.m0 0) (ph.getD (b.m0 + 1) 0)).2.2.1).set (b.m0 + 1)
        (commuteAnglesR b.theta b.phi (ph.getD b.m0 0) (ph.getD (b.m0 + 1) 0)).2.2.2) := rfl
  rw [e2, foldl_stepR_acc, ← commuteR_eq]
  simp

theorem commute_correct_aux (bss : List BSr) (hm : ∀ b ∈ bss, b.m0 + 1 < d) :
    ∀ (ph : List ℝ) (_ : ph.length = d) (R : Matrix (Fin d) (Fin d) ℂ),
    bss.foldl (fun acc b => (bsOf (d := d) b)ᴴ * acc) (phaseDiag ph * R) =
      phaseDiag (commuteR ph bss).2 * (commuteR ph bss).1.foldl (fun acc b => bsOf (d := d) b * acc) R := by
  induction bss with
  | nil => intro ph _ R; simp [commuteR]
  | cons b bs ih =>
    intro ph hlen R
    rw [commuteR_cons]
    simp only [List.foldl_cons]
    rw [← Matrix.mul_assoc, commute_step ph hlen b (hm b (List.mem_cons_self ..)), Matrix.mul_assoc]
    exact ih (fun c hc => hm c (List.mem_cons_of_mem _ hc)) _ (by simp [hlen]) _

end CommuteCorrect

/-- list level: moving all inverse beamsplitters through the phase layer.  For `bss = [B₁, …, B_k]`:
`B_k† ⋯ B₁† · D = D' · B_k' ⋯ B₁'` where `(bss', D') = commuteR D bss` -/
theorem commute_correct (d : Nat) (phases : List ℝ) (hlen : phases.length = d) (bss : List BSr)
    (hm : ∀ b ∈ bss, b.m0 + 1 < d) :
    bss.foldl (fun acc b => (bsOf (d := d) b)ᴴ * acc) (phaseDiag phases) =
      phaseDiag (commuteR phases bss).2 * (commuteR phases bss).1.foldl (fun acc b => bsOf (d := d) b * acc) 1 := by
  have := commute_correct_aux bss hm phases hlen 1
  rwa [Matrix.mul_one] at this

section Roundtrip
variable {d : Nat}

theorem emb_mul_emb (m0 : Nat) (h : m0 + 1 < d) (G H : Matrix (Fin 2) (Fin 2) ℂ) :
    (emb m0 G * emb m0 H : Matrix (Fin d) (Fin d) ℂ) = emb m0 (G * H) := by
  ext i j
  rw [emb_mul_apply _ h]
  rw [emb_row0 m0 H ⟨m0, by omega⟩ j rfl, emb_row1 m0 H ⟨m0 + 1, h⟩ j rfl]
  by_cases hi0 : i.val = m0
  · rw [if_pos hi0, emb_row0 m0 _ i j hi0]
    by_cases hj0 : j.val = m0
    · simp [hj0, Matrix.mul_apply, Fin.sum_univ_two]
    · by_cases hj1 : j.val = m0 + 1 <;> simp [hj0, hj1, Matrix.mul_apply, Fin.sum_univ_two]
  · rw [if_neg hi0]
    by_cases hi1 : i.val = m0 + 1
    · rw [if_pos hi1, emb_row1 m0 _ i j hi1]
      by_cases hj0 : j.val = m0
      · simp [hj0, Matrix.mul_apply, Fin.sum_univ_two]
      · by_cases hj1 : j.val = m0 + 1 <;> simp [hj0, hj1, Matrix.mul_apply, Fin.sum_univ_two]
    · rw [if_neg hi1, emb_row_other m0 _ i j hi0 hi1, emb_row_other m0 _ i j hi0 hi1]

theorem emb_one (m0 : Nat) : (emb m0 1 : Matrix (Fin d) (Fin d) ℂ) = 1 := by
  ext a b
  rw [Matrix.one_apply]
  by_cases ha0 : a.val = m0
  · rw [emb_row0 m0 _ a b ha0]
    have : a = b ↔ b.val = m0 := by rw [← ha0]; exact ⟨fun h => h ▸ rfl, fun h => Fin.ext h.symm⟩
    by_cases hb0 : b.val = m0
    · simp [hb0, this]
    · by_cases hb1 : b.val = m0 + 1 <;> simp [hb0, hb1, this]
  · by_cases ha1 : a.val = m0 + 1
    · rw [emb_row1 m0 _ a b ha1]
      have : a = b ↔ b.val = m0 + 1 := by rw [← ha1]; exact ⟨fun h => h ▸ rfl, fun h => Fin.ext h.symm⟩
      by_cases hb0 : b.val = m0
      · simp [hb0, this]
      · by_cases hb1 : b.val = m0 + 1 <;> simp [hb0, hb1, this]
    · rw [emb_row_other m0 _ a b ha0 ha1]

theorem bsOf_unitary (b : BSr) (h : b.m0 + 1 < d) : (bsOf (d := d) b)ᴴ * bsOf b = 1 := by
  unfold bsOf
  rw [emb_conjTranspose, emb_mul_emb _ h, bsMat_unitary, emb_one]

theorem foldl_mul_start {α : Type} (g : α → Matrix (Fin d) (Fin d) ℂ) (l : List α) :
    ∀ X : Matrix (Fin d) (Fin d) ℂ,
      l.foldl (fun acc b => g b * acc) X = l.foldl (fun acc b => g b * acc) 1 * X := by
  induction l with
  | nil => intro X; simp
  | cons b bs ih =>
    intro X
    simp only [List.foldl_cons]
    rw [ih (g b * X), ih (g b * 1), Matrix.mul_one, Matrix.mul_assoc]

theorem foldl_conj_reverse {α : Type} (g : α → Matrix (Fin d) (Fin d) ℂ) (l : List α)
    (X : Matrix (Fin d) (Fin d) ℂ) :
    l.reverse.foldl (fun acc b => (g b)ᴴ * acc) X = (l.foldl (fun acc b => g b * acc) 1)ᴴ * X := by
  rw [List.foldl_reverse]
  induction l with
  | nil => simp
  | cons b bs ih =>
    simp only [List.foldr_cons, List.foldl_cons]
    rw [ih, foldl_mul_start g bs (g b * 1), Matrix.mul_one, Matrix.conjTranspose_mul, Matrix.mul_assoc]

theorem foldl_right_conj {α : Type} (g : α → Matrix (Fin d) (Fin d) ℂ) (l : List α) :
    ∀ X : Matrix (Fin d) (Fin d) ℂ,
      l.foldl (fun acc b => acc * (g b)ᴴ) Xᴴ = (l.foldl (fun acc b => g b * acc) X)ᴴ := by
  induction l with
  | nil => intro X; simp
  | cons b bs ih =>
    intro X
    simp only [List.foldl_cons]
    rw [← Matrix.conjTranspose_mul, ih]

theorem foldl_unitary {α : Type} (g : α → Matrix (Fin d) (Fin d) ℂ) (l : List α)
    (hg : ∀ b ∈ l, (g b)ᴴ * g b = 1) :
    ∀ X : Matrix (Fin d) (Fin d) ℂ, Xᴴ * X = 1 →
      (l.foldl (fun acc b => g b * acc) X)ᴴ * l.foldl (fun acc b => g b * acc) X = 1 := by
  induction l with
  | nil => intro X hX; simpa using hX
  | cons b bs ih =>
    intro X hX
    simp only [List.foldl_cons]
    apply ih (fun c hc => hg c (List.mem_cons_of_mem _ hc))
    rw [Matrix.conjTranspose_mul, Matrix.mul_assoc, ← Matrix.mul_assoc _ (g b), hg b (List.mem_cons_self ..),
      Matrix.one_mul, hX]

end Roundtrip

/-- `inverse_clements (clements U) = U`: if the direct steps `lefts = [L₁, …, L_k]` (applied as `U ↦ L U`)
and the inverse steps `rights = [R₁, …, R_m]` (applied as `U ↦ U R†`) bring `U` to the phase layer `D`,
then the decomposition returned by the code — beamsplitters `rights ++ commuted (reverse lefts)`, phases
from `_commute` — reconstructs `U` -/
theorem clements_roundtrip (d : Nat) (U : Matrix (Fin d) (Fin d) ℂ) (lefts rights : List BSr) (phases : List ℝ)
    (hlen : phases.length = d) (hl : ∀ b ∈ lefts, b.m0 + 1 < d) (hr : ∀ b ∈ rights, b.m0 + 1 < d)
    (hD : lefts.foldl (fun acc b => bsOf (d := d) b * acc) 1 * U *
        rights.foldl (fun acc b => acc * (bsOf (d := d) b)ᴴ) 1 = phaseDiag phases) :
    inverseClements (d := d) (rights ++ (commuteR phases lefts.reverse).1) (commuteR phases lefts.reverse).2 = U := by
  unfold inverseClements
  rw [List.foldl_append, foldl_mul_start (fun b => bsOf (d := d) b) (commuteR phases lefts.reverse).1, ← Matrix.mul_assoc,
    ← commute_correct d phases hlen lefts.reverse (fun b hb => hl b (List.mem_reverse.1 hb)),
    foldl_conj_reverse (fun b => bsOf (d := d) b) lefts, ← hD]
  have hL := foldl_unitary (fun b => bsOf (d := d) b) lefts (fun b hb => bsOf_unitary b (hl b hb)) 1 (by simp)
  have hR := foldl_unitary (fun b => bsOf (d := d) b) rights (fun b hb => bsOf_unitary b (hr b hb)) 1 (by simp)
  have hRt := foldl_right_conj (fun b => bsOf (d := d) b) rights 1
  rw [Matrix.conjTranspose_one] at hRt
  rw [hRt]
  generalize List.foldl (fun acc b => bsOf (d := d) b * acc) 1 lefts = L at *
  generalize List.foldl (fun acc b => bsOf (d := d) b * acc) 1 rights = R at *
  calc Lᴴ * (L * U * Rᴴ) * R = (Lᴴ * L) * U * (Rᴴ * R) := by simp only [Matrix.mul_assoc]
    _ = U := by rw [hL, hR, Matrix.one_mul, Matrix.mul_one]

/-- a unitary matrix with a zero strict lower triangle is diagonal (so the eliminated matrix is a phase layer) -/
theorem unitary_lower_zero_diagonal (d : Nat) (U : Matrix (Fin d) (Fin d) ℂ) (hU : Uᴴ * U = 1)
    (hz : ∀ i j : Fin d, j < i → U i j = 0) : ∀ i j : Fin d, i ≠ j → U i j = 0 := by
  intro i j hij
  rcases lt_or_gt_of_ne hij with h | h
  · have _inst : Invertible U := invertibleOfLeftInverse U Uᴴ hU
    have hinv : U⁻¹ = Uᴴ := Matrix.inv_eq_left_inv hU
    have hbt : Matrix.BlockTriangular U (id : Fin d → Fin d) := fun a b hab => hz a b hab
    have := Matrix.blockTriangular_inv_of_blockTriangular hbt
    rw [hinv] at this
    have h2 := this (i := j) (j := i) h
    simpa [Matrix.conjTranspose_apply] using h2
  · exact hz i j h


end Pq.ClementsLaws

