import Mathlib.Tactic
import Mathlib.LinearAlgebra.UnitaryGroup
import Mathlib.LinearAlgebra.Matrix.NonsingularInverse
import Mathlib.Analysis.Normed.Algebra.MatrixExponential
import Mathlib.LinearAlgebra.Matrix.Notation
import Mathlib.Analysis.SpecialFunctions.Exponential

/-!
C09: the linear-algebra shims each connector re-implements are correct constructions, given the contracts of the
primitives they are built from (which the harness checks on the real intermediates):
* `polar` from a square root (TensorFlow connector): right and left polar decompositions;
* `svd` re-ordering of TensorFlow's `(s, u, v)`;
* `logm` / `expm` / `powm` through an eigendecomposition (`_funm`);
* the "lazy" Schur decomposition of a normal matrix from eigenvectors + QR;
* the Sylvester-equation form of the gradient of the matrix square root.
-/
namespace Pq.ShimLaws
open Matrix

variable {n : Type} [Fintype n] [DecidableEq n]

/-- right polar decomposition `A = U P` from `P = sqrtm(A† A)`, `U = A P⁻¹` -/
theorem polar_right (A P Pinv : Matrix n n ℂ) (hP : P * P = Aᴴ * A) (hPh : Pᴴ = P) (hinv : P * Pinv = 1) :
    let U := A * Pinv
    U * P = A ∧ Uᴴ * U = 1 := by
  intro U
  have hinv' : Pinv * P = 1 := mul_eq_one_comm.mp hinv
  have hPinvh : Pinvᴴ = Pinv := by
    have h1 : Pinvᴴ * P = 1 := by
      have := congrArg Matrix.conjTranspose hinv'
      rw [Matrix.conjTranspose_mul, hPh, Matrix.conjTranspose_one] at this
      exact mul_eq_one_comm.mp this
    calc Pinvᴴ = Pinvᴴ * (P * Pinv) := by rw [hinv, Matrix.mul_one]
      _ = (Pinvᴴ * P) * Pinv := by rw [Matrix.mul_assoc]
      _ = Pinv := by rw [h1, Matrix.one_mul]
  refine ⟨?_, ?_⟩
  · show A * Pinv * P = A
    rw [Matrix.mul_assoc, hinv', Matrix.mul_one]
  · show (A * Pinv)ᴴ * (A * Pinv) = 1
    rw [Matrix.conjTranspose_mul, hPinvh]
    calc Pinv * Aᴴ * (A * Pinv) = Pinv * (Aᴴ * A) * Pinv := by simp only [Matrix.mul_assoc]
      _ = (Pinv * P) * (P * Pinv) := by rw [← hP]; simp only [Matrix.mul_assoc]
      _ = 1 := by rw [hinv', hinv, Matrix.one_mul]

/-- left polar decomposition `A = P U` from `P = sqrtm(A A†)`, `U = P⁻¹ A` -/
theorem polar_left (A P Pinv : Matrix n n ℂ) (hP : P * P = A * Aᴴ) (hPh : Pᴴ = P) (hinv : P * Pinv = 1) :
    let U := Pinv * A
    P * U = A ∧ U * Uᴴ = 1 := by
  intro U
  have hinv' : Pinv * P = 1 := mul_eq_one_comm.mp hinv
  have hPinvh : Pinvᴴ = Pinv := by
    have h1 : Pinvᴴ * P = 1 := by
      have := congrArg Matrix.conjTranspose hinv'
      rw [Matrix.conjTranspose_mul, hPh, Matrix.conjTranspose_one] at this
      exact mul_eq_one_comm.mp this
    calc Pinvᴴ = Pinvᴴ * (P * Pinv) := by rw [hinv, Matrix.mul_one]
      _ = (Pinvᴴ * P) * Pinv := by rw [Matrix.mul_assoc]
      _ = Pinv := by rw [h1, Matrix.one_mul]
  refine ⟨?_, ?_⟩
  · show P * (Pinv * A) = A
    rw [← Matrix.mul_assoc, hinv, Matrix.one_mul]
  · show (Pinv * A) * (Pinv * A)ᴴ = 1
    rw [Matrix.conjTranspose_mul, hPinvh]
    calc Pinv * A * (Aᴴ * Pinv) = Pinv * (A * Aᴴ) * Pinv := by simp only [Matrix.mul_assoc]
      _ = (Pinv * P) * (P * Pinv) := by rw [← hP]; simp only [Matrix.mul_assoc]
      _ = 1 := by rw [hinv', hinv, Matrix.one_mul]

/-- the matrix `conj(A) Aᵀ` whose square root the TensorFlow connector used to take is neither `A† A` (right
polar factor squared) nor `A A†` (left): a `2 × 2` witness -/
theorem conj_sqrt_is_not_polar :
    ∃ A : Matrix (Fin 2) (Fin 2) ℂ, A.map (starRingEnd ℂ) * Aᵀ ≠ Aᴴ * A ∧ A.map (starRingEnd ℂ) * Aᵀ ≠ A * Aᴴ := by
  refine ⟨!![1, Complex.I; 0, 1], ?_, ?_⟩
  · intro h
    have := congrFun (congrFun h 0) 0
    simp [Matrix.mul_apply, Fin.sum_univ_two, Matrix.map_apply, Matrix.conjTranspose_apply] at this
  · intro h
    have := congrFun (congrFun h 0) 1
    simp [Matrix.mul_apply, Fin.sum_univ_two, Matrix.map_apply, Matrix.conjTranspose_apply] at this
    have h2 := congrArg Complex.im this
    norm_num at h2

/-- TensorFlow's `svd` returns `(s, u, v)` with `A = u diag(s) v†`; the shim returns `(u, s, conj(v)ᵀ)` -/
theorem svd_reorder (A U V : Matrix n n ℂ) (s : n → ℂ) (h : A = U * Matrix.diagonal s * Vᴴ) :
    A = U * Matrix.diagonal s * (V.map (starRingEnd ℂ))ᵀ := by
  have : (V.map (starRingEnd ℂ))ᵀ = Vᴴ := by
    ext i j; simp [Matrix.conjTranspose_apply]
  rw [this]; exact h

/-- `_funm`: a function applied through an eigendecomposition `M = V diag(λ) V⁻¹`; for the exponential of the
logarithm: `expm (V diag(log λ) V⁻¹) = M` -/
theorem funm_exp_log (M V Vinv : Matrix n n ℂ) (lam l : n → ℂ) (hV : V * Vinv = 1)
    (hM : M = V * Matrix.diagonal lam * Vinv) (hl : ∀ i, Complex.exp (l i) = lam i) :
    NormedSpace.exp (V * Matrix.diagonal l * Vinv) = M := by
  have hV' : Vinv * V = 1 := mul_eq_one_comm.mp hV
  have hu : IsUnit V := ⟨⟨V, Vinv, hV, hV'⟩, rfl⟩
  have hinv : V⁻¹ = Vinv := Matrix.inv_eq_right_inv hV
  have hexp : NormedSpace.exp l = lam := by
    funext i
    rw [Pi.coe_exp, ← Complex.exp_eq_exp_ℂ, hl]
  rw [← hinv, Matrix.exp_conj _ _ hu, Matrix.exp_diagonal, hexp, hM, hinv]

/-- `powm` through an eigendecomposition: integer powers agree with repeated multiplication -/
theorem funm_pow (M V Vinv : Matrix n n ℂ) (lam : n → ℂ) (hV : Vinv * V = 1)
    (hM : M = V * Matrix.diagonal lam * Vinv) (k : ℕ) :
    M ^ k = V * Matrix.diagonal (fun i => lam i ^ k) * Vinv := by
  induction k with
  | zero =>
    have hV' : V * Vinv = 1 := mul_eq_one_comm.mp hV
    simp [hV']
  | succ k ih =>
    rw [pow_succ, ih, hM]
    calc V * Matrix.diagonal (fun i => lam i ^ k) * Vinv * (V * Matrix.diagonal lam * Vinv)
        = V * Matrix.diagonal (fun i => lam i ^ k) * (Vinv * V) * Matrix.diagonal lam * Vinv := by
          simp only [Matrix.mul_assoc]
      _ = V * (Matrix.diagonal (fun i => lam i ^ k) * Matrix.diagonal lam) * Vinv := by
          rw [hV, Matrix.mul_one]; simp only [Matrix.mul_assoc]
      _ = _ := by
          rw [Matrix.diagonal_mul_diagonal]
          simp only [pow_succ]

/-- "lazy Schur": if the columns of `Q` are orthonormal eigenvectors of `M` (`M Q = Q diag(λ)`, `Q† Q = 1`) then
`D = Q† M Q` is diagonal and `M = Q D Q†` -/
theorem lazy_schur (M Q : Matrix n n ℂ) (lam : n → ℂ) (hQ : Qᴴ * Q = 1) (hev : M * Q = Q * Matrix.diagonal lam) :
    Qᴴ * M * Q = Matrix.diagonal lam ∧ M = Q * (Qᴴ * M * Q) * Qᴴ := by
  have hQ' : Q * Qᴴ = 1 := mul_eq_one_comm.mp hQ
  have h1 : Qᴴ * M * Q = Matrix.diagonal lam := by
    rw [Matrix.mul_assoc, hev, ← Matrix.mul_assoc, hQ, Matrix.one_mul]
  refine ⟨h1, ?_⟩
  rw [h1, ← hev, Matrix.mul_assoc, hQ', Matrix.mul_one]

/-- the gradient of the matrix square root: if `P X + X P = dM` determines the differential `X = dP` of
`P P = M`, then the cotangent `Y` solving `P† Y + Y P† = G` satisfies `⟨Y, dM⟩ = ⟨G, dP⟩` (Frobenius inner
products `tr(Y† dM)`, `tr(G† dP)`): the rule the TensorFlow connector now uses for complex matrices -/
theorem sqrtm_vjp (P X dM Y G : Matrix n n ℂ) (hX : P * X + X * P = dM) (hY : Pᴴ * Y + Y * Pᴴ = G) :
    Matrix.trace (Yᴴ * dM) = Matrix.trace (Gᴴ * X) := by
  subst hX hY
  rw [Matrix.conjTranspose_add, Matrix.conjTranspose_mul, Matrix.conjTranspose_mul,
    Matrix.conjTranspose_conjTranspose]
  simp only [Matrix.mul_add, Matrix.add_mul, Matrix.trace_add, ← Matrix.mul_assoc]
  congr 1
  rw [Matrix.trace_mul_comm (Yᴴ * X) P, Matrix.mul_assoc]

end Pq.ShimLaws
