import Mathlib.Tactic
import Mathlib.Data.Complex.Basic
import PqVerif.Model.FermiGates

/-!
C17 (Fock side, label level): every fermionic gate moves amplitude only between occupation labels of
the same parity with entries 0/1; passive gates only between labels of the same particle number; the
pair updates are norm preserving.
-/
namespace Pq.FermiGates

theorem isBits_iff (t : List Nat) : isBits t = true ↔ ∀ x ∈ t, x = 0 ∨ x = 1 := by
  simp [isBits, List.all_eq_true]

theorem isBits_cons (x : Nat) (t : List Nat) :
    isBits (x :: t) = true ↔ (x = 0 ∨ x = 1) ∧ isBits t = true := by
  simp [isBits]

theorem mem_bits (d : Nat) (t : List Nat) : t ∈ bits d ↔ t.length = d ∧ isBits t = true := by
  induction d generalizing t with
  | zero =>
    simp only [bits, List.mem_singleton]
    constructor
    · rintro rfl; simp [isBits]
    · rintro ⟨h, _⟩; exact List.length_eq_zero_iff.mp h
  | succ d ih =>
    simp only [bits, List.mem_flatMap, List.mem_cons, List.not_mem_nil, or_false]
    constructor
    · rintro ⟨u, hu, rfl | rfl⟩
      · rw [ih] at hu
        refine ⟨by simp [hu.1], ?_⟩
        rw [isBits_cons]; exact ⟨Or.inl rfl, hu.2⟩
      · rw [ih] at hu
        refine ⟨by simp [hu.1], ?_⟩
        rw [isBits_cons]; exact ⟨Or.inr rfl, hu.2⟩
    · rintro ⟨hl, hb⟩
      cases t with
      | nil => simp at hl
      | cons x u =>
        rw [isBits_cons] at hb
        simp only [List.length_cons, Nat.add_right_cancel_iff] at hl
        refine ⟨u, (ih u).mpr ⟨hl, hb.2⟩, ?_⟩
        rcases hb.1 with rfl | rfl
        · exact Or.inl rfl
        · exact Or.inr rfl

theorem flip2_isBits (s : List Nat) (a b : Nat) (hs : isBits s = true) : isBits (flip2 s a b) = true := by
  rw [isBits_iff] at hs ⊢
  intro x hx
  unfold flip2 at hx
  rcases List.mem_or_eq_of_mem_set hx with hx | rfl
  · rcases List.mem_or_eq_of_mem_set hx with hx | rfl
    · exact hs x hx
    · omega
  · omega

theorem flip2_length (s : List Nat) (a b : Nat) : (flip2 s a b).length = s.length := by
  simp [flip2]

theorem sum_set_add (l : List Nat) (i v : Nat) (hi : i < l.length) :
    (l.set i v).sum + l[i] = l.sum + v := by
  induction l generalizing i with
  | nil => simp at hi
  | cons x l ih =>
    cases i with
    | zero => simp; omega
    | succ i =>
      simp only [List.length_cons, Nat.add_lt_add_iff_right] at hi
      have := ih i hi
      simp only [List.set_cons_succ, List.sum_cons, List.getElem_cons_succ]
      omega

theorem getElem_bit (s : List Nat) (hs : isBits s = true) (i : Nat) (hi : i < s.length) :
    s[i] = 0 ∨ s[i] = 1 :=
  (isBits_iff s).mp hs _ (List.getElem_mem hi)

/-- flipping two different modes changes the particle number by -2, 0 or 2 -/
theorem flip2_parity (s : List Nat) (a b : Nat) (hab : a ≠ b) (ha : a < s.length) (hb : b < s.length)
    (hs : isBits s = true) : parity (flip2 s a b) = parity s := by
  unfold parity flip2
  have hga : s.getD a 0 = s[a] := by simp [List.getD_eq_getElem?_getD, ha]
  have hgb : s.getD b 0 = s[b] := by simp [List.getD_eq_getElem?_getD, hb]
  rw [hga, hgb]
  have key : ∀ va vb, s[a] = va → s[b] = vb →
      ((s.set a (1 - va)).set b (1 - vb)).sum + va + vb = s.sum + (1 - va) + (1 - vb) := by
    intro va vb hva hvb
    have hb' : b < (s.set a (1 - va)).length := by simpa using hb
    have h1 := sum_set_add (s.set a (1 - va)) b (1 - vb) hb'
    have h2 := sum_set_add s a (1 - va) ha
    have h3 : (s.set a (1 - va))[b] = s[b] := List.getElem_set_ne hab _
    rw [h3, hvb] at h1
    rw [hva] at h2
    omega
  have ka := getElem_bit s hs a ha
  have kb := getElem_bit s hs b hb
  have := key _ _ rfl rfl
  generalize s[a] = va at *
  generalize s[b] = vb at *
  generalize ((s.set a (1 - va)).set b (1 - vb)).sum = X at *
  omega

theorem ising_parity (s : List Nat) (a b : Nat) (hab : a ≠ b) (ha : a < s.length) (hb : b < s.length)
    (hs : isBits s = true) : ∀ t ∈ isingTargets s a b, parity t = parity s ∧ isBits t = true ∧ t.length = s.length := by
  intro t ht
  simp only [isingTargets, List.mem_cons, List.not_mem_nil, or_false] at ht
  rcases ht with rfl | rfl
  · exact ⟨rfl, hs, rfl⟩
  · exact ⟨flip2_parity s a b hab ha hb hs, flip2_isBits s a b hs, flip2_length s a b⟩

theorem sq2_parity (s : List Nat) (a b : Nat) (hab : a ≠ b) (ha : a < s.length) (hb : b < s.length)
    (hs : isBits s = true) : ∀ t ∈ sq2Targets s a b, parity t = parity s ∧ isBits t = true ∧ t.length = s.length := by
  intro t ht
  unfold sq2Targets at ht
  split at ht
  · exact ising_parity s a b hab ha hb hs t ht
  · simp only [List.mem_cons, List.not_mem_nil, or_false] at ht
    subst ht
    exact ⟨rfl, hs, rfl⟩

theorem cphase_parity (s : List Nat) : ∀ t ∈ cphaseTargets s, t = s := by
  intro t ht
  simpa [cphaseTargets] using ht

theorem sum_eq_range_getD (l : List Nat) :
    l.sum = ∑ i ∈ Finset.range l.length, l.getD i 0 := by
  induction l with
  | nil => simp
  | cons x l ih =>
    rw [List.length_cons, Finset.sum_range_succ', List.sum_cons, ih]
    simp [add_comm]

/-- passive gates conserve the particle number (hence parity) and exclusion -/
theorem passive_number (s : List Nat) (modes : List Nat) (hm : modes.Nodup) (hlt : ∀ m ∈ modes, m < s.length) :
    ∀ t ∈ passiveTargets s modes, t.sum = s.sum ∧ isBits t = true ∧ t.length = s.length := by
  intro t ht
  unfold passiveTargets at ht
  rw [List.mem_filter, mem_bits, Bool.and_eq_true, List.all_eq_true] at ht
  obtain ⟨⟨hlen, hbits⟩, hoff, hsum⟩ := ht
  refine ⟨?_, hbits, hlen⟩
  have hsum' : (modes.map (fun m => t.getD m 0)).sum = (modes.map (fun m => s.getD m 0)).sum := by
    simpa using hsum
  have hfin : modes.toFinset = (Finset.range s.length).filter (· ∈ modes) := by
    ext i
    simp only [List.mem_toFinset, Finset.mem_filter, Finset.mem_range]
    exact ⟨fun h => ⟨hlt i h, h⟩, fun h => h.2⟩
  rw [sum_eq_range_getD t, sum_eq_range_getD s, hlen]
  rw [← Finset.sum_filter_add_sum_filter_not (Finset.range s.length) (· ∈ modes) (fun i => t.getD i 0),
    ← Finset.sum_filter_add_sum_filter_not (Finset.range s.length) (· ∈ modes) (fun i => s.getD i 0)]
  rw [← hfin, List.sum_toFinset _ hm, List.sum_toFinset _ hm, hsum']
  congr 1
  apply Finset.sum_congr rfl
  intro i hi
  simp only [Finset.mem_filter, Finset.mem_range] at hi
  have := hoff i (List.mem_range.mpr hi.1)
  simp only [Bool.or_eq_true, List.contains_iff_mem, beq_iff_eq] at this
  rcases this with h | h
  · exact absurd h hi.2
  · exact h

/-- the Ising-XX pair update is norm preserving for `c² + s² = 1` -/
theorem isingPair_norm (c s : ℝ) (h : c ^ 2 + s ^ 2 = 1) (x y : ℂ) :
    Complex.normSq (isingPair (c : ℂ) (Complex.I * s) x y).1 + Complex.normSq (isingPair (c : ℂ) (Complex.I * s) x y).2
      = Complex.normSq x + Complex.normSq y := by
  simp only [isingPair, Complex.normSq_apply, Complex.add_re, Complex.add_im, Complex.mul_re, Complex.mul_im,
    Complex.I_re, Complex.I_im, Complex.ofReal_re, Complex.ofReal_im]
  linear_combination (x.re ^ 2 + x.im ^ 2 + y.re ^ 2 + y.im ^ 2) * h

/-- the two-mode squeezing pair update with the block `[[cos, sin e^{-iφ}], [-sin e^{iφ}, cos]]`
(`e = e^{iφ}` of modulus one) is norm preserving -/
theorem sq2Pair_norm (c s : ℝ) (e : ℂ) (h : c ^ 2 + s ^ 2 = 1) (he : Complex.normSq e = 1) (x y : ℂ) :
    let p := sq2Pair (c : ℂ) (s * (starRingEnd ℂ) e) (-(s * e)) (c : ℂ) x y
    Complex.normSq p.1 + Complex.normSq p.2 = Complex.normSq x + Complex.normSq y := by
  intro p
  rw [Complex.normSq_apply] at he
  simp only [p, sq2Pair, Complex.normSq_apply, Complex.add_re, Complex.add_im, Complex.mul_re, Complex.mul_im,
    Complex.neg_re, Complex.neg_im, Complex.ofReal_re, Complex.ofReal_im, Complex.conj_re, Complex.conj_im]
  linear_combination (x.re ^ 2 + x.im ^ 2 + y.re ^ 2 + y.im ^ 2) * h +
    s ^ 2 * (x.re ^ 2 + x.im ^ 2 + y.re ^ 2 + y.im ^ 2) * he

end Pq.FermiGates
