import Mathlib.Data.Nat.Choose.Sum
import Mathlib.Data.List.Basic
import Mathlib.Tactic
import PqVerif.Model.Comb

/-!
Specification-side definitions for L0 (`parts`, `basis`, `index`) and the lemmas tying the
executable model (`Pq.Comb.comb`, `indexInFockSpace`, …) to them.
-/
namespace Pq.Comb
open List

/-! ### `comb` is the binomial coefficient -/

theorem combLoop_eq_choose (n : Nat) : ∀ k, k ≤ n → combLoop n k = n.choose k := by
  intro k
  induction k with
  | zero => intro _; simp [combLoop]
  | succ k ih =>
    intro hk
    have ih' := ih (by omega)
    unfold combLoop at *
    rw [List.range_succ, List.foldl_append, ih']
    simp only [List.foldl_cons, List.foldl_nil]
    have h := Nat.choose_succ_right_eq n k
    rw [← h]
    exact Nat.mul_div_cancel _ (by omega)

theorem comb_eq_choose (n k : Nat) : comb n k = n.choose k := by
  unfold comb
  split
  · rename_i h; exact (Nat.choose_eq_zero_of_lt h).symm
  · rename_i h
    have hk : k ≤ n := by omega
    rcases Nat.le_total k (n - k) with h1 | h1
    · rw [Nat.min_eq_left h1, combLoop_eq_choose n k hk]
    · rw [Nat.min_eq_right h1, combLoop_eq_choose n (n - k) (by omega), Nat.choose_symm hk]

theorem arrComb_eq_choose (n k : Nat) : arrComb n k = n.choose k := by
  unfold arrComb
  split
  · rename_i h
    rw [Nat.choose_eq_zero_of_lt h]
    obtain ⟨k', rfl⟩ : ∃ k', k = k' + 1 := ⟨k - 1, by omega⟩
    unfold combLoop
    rw [List.range_succ_eq_map, List.foldl_cons]
    simp only [Nat.sub_self, Nat.mul_zero, Nat.zero_div]
    generalize (List.map Nat.succ (List.range k')) = l
    induction l with
    | nil => rfl
    | cons a t ih => simpa using ih
  · rename_i h; exact combLoop_eq_choose n k (by omega)

theorem combInt_natCast (n k : Nat) : combInt (n : Int) (k : Int) = n.choose k := by
  unfold combInt
  split
  · rename_i h
    have : n < k := by omega
    exact (Nat.choose_eq_zero_of_lt this).symm
  · simp [comb_eq_choose]

theorem cutoffDim_eq (c d : Nat) : cutoffDim (c + 1) d = (d + c).choose d := by
  unfold cutoffDim
  have : ((d : Int) + ((c + 1 : Nat) : Int) - 1) = ((d + c : Nat) : Int) := by push_cast; ring
  rw [this, combInt_natCast]

theorem cutoffDim_zero (d : Nat) : cutoffDim 0 (d + 1) = 0 := by
  unfold cutoffDim combInt
  simp

theorem subspaceCard_eq (d n : Nat) : subspaceCard (d + 1) n = (n + d).choose n := by
  unfold subspaceCard
  have : (((d + 1 : Nat) : Int) + (n : Int) - 1) = ((n + d : Nat) : Int) := by push_cast; ring
  rw [this, combInt_natCast]

/-! ### recursive enumeration and ranking -/

/-- recursive anti-lexicographic enumeration of the weak compositions of `n` into `d` parts -/
def parts : Nat → Nat → List (List Nat)
  | 0, 0 => [[]]
  | 0, _+1 => []
  | d+1, n => (List.range (n+1)).reverse.flatMap (fun k => (parts d (n-k)).map (k :: ·))

def basis (d c : Nat) : List (List Nat) := (List.range c).flatMap (parts d)

/-- ranking, recursive form of `get_index_in_fock_space` -/
def index : List Nat → Nat
  | [] => 0
  | v0 :: r => Nat.choose ((v0 + r.sum) + r.length) (r.length + 1) + index r

theorem mem_parts : ∀ (d n : Nat) (v : List Nat), v ∈ parts d n ↔ v.length = d ∧ v.sum = n
  | 0, 0, v => by
      simp only [parts, List.mem_singleton, List.length_eq_zero_iff]
      constructor
      · rintro rfl; simp
      · rintro ⟨h, _⟩; exact h
  | 0, n+1, v => by
      simp [parts]; intro h; subst h; simp
  | d+1, n, v => by
      simp only [parts, List.mem_flatMap, List.mem_reverse, List.mem_range, List.mem_map]
      constructor
      · rintro ⟨k, hk, r, hr, rfl⟩
        rw [mem_parts d (n-k) r] at hr
        simp [hr.1, hr.2]; omega
      · rintro ⟨hl, hs⟩
        match v, hl with
        | v0 :: r, hl =>
          simp at hl hs
          refine ⟨v0, by omega, r, ?_, rfl⟩
          rw [mem_parts d (n - v0) r]
          exact ⟨hl, by omega⟩

theorem parts_one (n : Nat) : parts 1 n = [[n]] := by
  unfold parts
  rw [List.range_succ, List.reverse_append]
  simp only [List.reverse_singleton, List.singleton_append, List.flatMap_cons, Nat.sub_self]
  have : ∀ l : List Nat, (∀ k ∈ l, k < n) →
      l.flatMap (fun k => (parts 0 (n - k)).map (k :: ·)) = [] := by
    intro l hl
    induction l with
    | nil => rfl
    | cons a t ih =>
      have ha : a < n := hl a (by simp)
      obtain ⟨m, hm⟩ : ∃ m, n - a = m + 1 := ⟨n - a - 1, by omega⟩
      simp only [List.flatMap_cons, hm, parts, List.map_nil, List.nil_append]
      exact ih (fun k hk => hl k (by simp [hk]))
  rw [this _ (by intro k hk; simpa using hk)]
  simp [parts]

/-- consecutive blocks glue to one range -/
theorem flatMap_range' (off len : Nat → Nat) (h0 : off 0 = 0)
    (hs : ∀ t, off (t+1) = off t + len t) (n : Nat) :
    (List.range n).flatMap (fun t => List.range' (off t) (len t)) = List.range' 0 (off n) := by
  induction n with
  | zero => simp [h0]
  | succ n ih =>
    rw [List.range_succ, List.flatMap_append, ih]
    simp only [List.flatMap_singleton, hs]
    have := List.range'_append_1 (s := 0) (m := off n) (n := len n)
    simpa using this

theorem reverse_flatMap_sub {α} (n : Nat) (f : Nat → List α) :
    (List.range (n+1)).reverse.flatMap (fun k => f (n-k)) = (List.range (n+1)).flatMap f := by
  have h : (List.range (n+1)).reverse = (List.range (n+1)).map (fun t => n - t) := by
    rw [List.range_eq_range', List.reverse_range', ← List.range_eq_range']
    apply List.map_congr_left
    intro a ha
    simp at ha ⊢
  rw [h, List.flatMap_map]
  apply List.flatMap_congr
  intro t ht
  simp at ht
  congr 1
  omega

theorem index_cons_of_mem {d m k : Nat} {r : List Nat} (hr : r ∈ parts (d+1) m) :
    index (k :: r) = Nat.choose (k + m + (d+1)) (d+2) + index r := by
  obtain ⟨hl, hs⟩ := (mem_parts _ _ _).1 hr
  simp [index, hl, hs]

theorem map_index_parts : ∀ d n,
    (parts (d+1) n).map index = List.range' (Nat.choose (n+d) (d+1)) (Nat.choose (n+d) d)
  | 0, n => by
      simp [parts_one, index]
  | d+1, n => by
      have ih := map_index_parts d
      have hunf : parts (d+2) n =
          (List.range (n+1)).reverse.flatMap (fun k => (parts (d+1) (n-k)).map (k :: ·)) := by
        rw [parts]
      rw [hunf, List.map_flatMap]
      set B := Nat.choose (n + (d+1)) (d+2) with hB
      have hblock : ∀ k ∈ (List.range (n+1)).reverse,
          ((parts (d+1) (n-k)).map (k :: ·)).map index =
            (List.range' (Nat.choose (n-k+d) (d+1)) (Nat.choose (n-k+d) d)).map (B + ·) := by
        intro k hk
        have hk' : k ≤ n := by simpa [Nat.lt_succ_iff] using hk
        rw [← ih (n-k), List.map_map, List.map_map]
        apply List.map_congr_left
        intro r hr
        simp only [Function.comp]
        rw [index_cons_of_mem hr, hB]
        congr 2
        omega
      rw [List.flatMap_congr hblock]
      rw [reverse_flatMap_sub n (fun t =>
        (List.range' (Nat.choose (t+d) (d+1)) (Nat.choose (t+d) d)).map (B + ·))]
      rw [← List.map_flatMap]
      rw [flatMap_range' (fun t => Nat.choose (t+d) (d+1)) (fun t => Nat.choose (t+d) d)
        (by simp) (by
          intro t
          rw [show t + 1 + d = (t + d) + 1 by omega, Nat.choose_succ_succ, Nat.add_comm])]
      rw [List.map_add_range']
      have e1 : n + 1 + d = n + (d + 1) := by omega
      simp only [hB, e1, Nat.add_zero]

/-- the enumerated basis is ranked by `index`: position = index, for every d ≥ 1 and every cutoff -/
theorem map_index_basis (d c : Nat) :
    (basis (d+1) c).map index = List.range (Nat.choose (c+d) (d+1)) := by
  unfold basis
  rw [List.map_flatMap]
  have : ∀ n ∈ List.range c, (parts (d+1) n).map index =
      List.range' (Nat.choose (n+d) (d+1)) (Nat.choose (n+d) d) := fun n _ => map_index_parts d n
  rw [List.flatMap_congr this,
    flatMap_range' (fun t => Nat.choose (t+d) (d+1)) (fun t => Nat.choose (t+d) d)
      (by simp) (by
        intro t
        rw [show t + 1 + d = (t + d) + 1 by omega, Nat.choose_succ_succ, Nat.add_comm]),
    List.range_eq_range']

end Pq.Comb
