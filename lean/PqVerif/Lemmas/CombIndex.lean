import PqVerif.Lemmas.Comb

/-! index model = recursive ranking; membership, nodup, ordering of the specification basis -/
namespace Pq.Comb
open List

theorem foldl_indexStep (v : List Nat) :
    v.reverse.foldl indexStep (0, 0, 0) = (v.length, v.sum, index v) := by
  induction v with
  | nil => rfl
  | cons v0 r ih =>
    rw [List.reverse_cons, List.foldl_append, ih]
    simp only [List.foldl_cons, List.foldl_nil, indexStep, List.length_cons, List.sum_cons, index,
      comb_eq_choose]
    refine Prod.ext rfl (Prod.ext ?_ ?_)
    · simp [Nat.add_comm]
    · simp only
      rw [Nat.add_comm (index r), Nat.add_comm r.sum v0]

theorem indexInFockSpace_eq_index (v : List Nat) : indexInFockSpace v = index v := by
  unfold indexInFockSpace
  rw [foldl_indexStep]

theorem indexStepArr_eq : indexStepArr = indexStep := by
  funext st x
  simp [indexStepArr, indexStep, arrComb_eq_choose, comb_eq_choose]

theorem indexInFockSpaceArr_eq_index (v : List Nat) : indexInFockSpaceArr v = index v := by
  unfold indexInFockSpaceArr
  rw [indexStepArr_eq, foldl_indexStep]

theorem indexInFockSubspace_cons (v0 : Nat) (r : List Nat) :
    indexInFockSubspace (v0 :: r) = index r := by
  unfold indexInFockSubspace
  have : ((v0 :: r).reverse.take ((v0 :: r).length - 1)) = r.reverse := by
    rw [List.reverse_cons]
    simp
  rw [this, foldl_indexStep]

theorem indexInFockSubspaceArr_cons (v0 : Nat) (r : List Nat) :
    indexInFockSubspaceArr (v0 :: r) = index r := by
  unfold indexInFockSubspaceArr
  have : ((v0 :: r).reverse.take ((v0 :: r).length - 1)) = r.reverse := by
    rw [List.reverse_cons]
    simp
  rw [this, indexStepArr_eq, foldl_indexStep]

theorem mem_basis (d c : Nat) (v : List Nat) :
    v ∈ basis d c ↔ v.length = d ∧ v.sum < c := by
  unfold basis
  simp only [List.mem_flatMap, List.mem_range, mem_parts]
  constructor
  · rintro ⟨n, hn, hl, hs⟩; exact ⟨hl, by omega⟩
  · rintro ⟨hl, hs⟩; exact ⟨v.sum, hs, hl, rfl⟩

theorem length_basis (d c : Nat) : (basis (d+1) c).length = Nat.choose (c+d) (d+1) := by
  have := congrArg List.length (map_index_basis d c)
  simpa using this

theorem nodup_basis (d c : Nat) : (basis (d+1) c).Nodup := by
  have h : ((basis (d+1) c).map index).Nodup := by
    rw [map_index_basis]; exact List.nodup_range
  exact List.Nodup.of_map _ h

theorem index_getElem (d c i : Nat) (v : List Nat) (h : (basis (d+1) c)[i]? = some v) :
    index v = i := by
  have h1 : ((basis (d+1) c).map index)[i]? = some (index v) := by
    rw [List.getElem?_map, h]; rfl
  rw [map_index_basis] at h1
  have hi : i < Nat.choose (c+d) (d+1) := by
    by_contra hc
    rw [List.getElem?_eq_none (by simpa using Nat.le_of_not_lt hc)] at h1
    cases h1
  rw [List.getElem?_range hi] at h1
  exact (Option.some.inj h1).symm

theorem getElem_index (d c : Nat) (v : List Nat) (hl : v.length = d + 1) (hs : v.sum < c) :
    (basis (d+1) c)[index v]? = some v := by
  have hm : v ∈ basis (d+1) c := (mem_basis _ _ _).2 ⟨hl, hs⟩
  obtain ⟨i, hi⟩ := List.getElem?_of_mem hm
  have := index_getElem d c i v hi
  rw [this]; exact hi

/-- lexicographic "greater than" on occupation vectors -/
def lexGT : List Nat → List Nat → Prop
  | a :: as, b :: bs => a > b ∨ (a = b ∧ lexGT as bs)
  | _, _ => False

theorem parts_antilex : ∀ d n, (parts d n).Pairwise lexGT
  | 0, 0 => by simp [parts]
  | 0, n+1 => by simp [parts]
  | d+1, n => by
    rw [parts, List.pairwise_flatMap]
    constructor
    · intro k _
      rw [List.pairwise_map]
      exact (parts_antilex d (n-k)).imp (fun h => Or.inr ⟨rfl, h⟩)
    · have : (List.range (n+1)).reverse.Pairwise (· > ·) := by
        rw [List.pairwise_reverse]
        exact (List.pairwise_lt_range).imp (fun h => h)
      refine this.imp ?_
      intro a b hab x hx y hy
      simp only [List.mem_map] at hx hy
      obtain ⟨x', _, rfl⟩ := hx
      obtain ⟨y', _, rfl⟩ := hy
      exact Or.inl hab

theorem basis_sum_sorted (d c : Nat) : (basis d c).Pairwise (fun a b => a.sum ≤ b.sum) := by
  unfold basis
  rw [List.pairwise_flatMap]
  constructor
  · intro n _
    rw [List.pairwise_iff_forall_sublist]
    intro a b hab
    have ha := (mem_parts d n a).1 (hab.subset (by simp))
    have hb := (mem_parts d n b).1 (hab.subset (by simp))
    omega
  · refine (List.pairwise_lt_range).imp ?_
    intro a b hab x hx y hy
    have ha := (mem_parts d a x).1 hx
    have hb := (mem_parts d b y).1 hy
    omega

end Pq.Comb
