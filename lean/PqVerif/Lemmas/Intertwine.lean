import PqVerif.Lemmas.DispRec
import PqVerif.Lemmas.SqueezeRec
import PqVerif.Gen.Gates

/-!
C01 (active gates, Fock picture vs symplectic picture): the Fock-space matrices that the PureFock / Fock simulators build for
`Displacement` and `Squeezing` (closed forms `dispEntry`, `sqEntry`, proved equal to the code's recurrences in
`DispRec` / `SqueezeRec`) transform the ladder operators exactly as the Gaussian simulator says:

* displacement:  `a D = D (a + α)`,  `a† D = D (a† + conj α)`  with `α = r e^{iφ}` (the shift of the mean);
* squeezing:     `a S = S (P a + A a†)`,  `a† S = S (conj P a† + conj A a)`  with `P`, `A` the passive and active block of
  the gate **as regenerated from `gates.py`** (`Gen/Gates.lean`: `P = cosh r`, `A = -sinh r e^{iφ}`), i.e. the blocks
  the Gaussian simulator applies to the first and second moments.

The relations are finite identities between neighbouring matrix elements (`⟨m| a = √(m+1) ⟨m+1|`, `a |n⟩ = √n |n-1⟩`, …),
so they hold entrywise with no truncation error in the closed forms.  Together with the vacuum column they determine
the operator.
-/
namespace Pq.Intertwine
open Pq.GradLaws Pq.SqueezeRec Pq.Gen.Gates


/-! ### displacement: the coefficient polynomial in the other index -/

theorem T_swap (m n : ℕ) (x : ℂ) : T n m x = T m n (-x) := by
  unfold T
  rw [min_comm n m]
  refine Finset.sum_congr rfl fun k hk => ?_
  have hk' : k ≤ m ∧ k ≤ n := by have := Finset.mem_range.mp hk; omega
  have e1 : n + m - 2 * k = (m - k) + (n - k) := by omega
  have e2 : m + n - 2 * k = (m - k) + (n - k) := by omega
  rw [e1, e2, neg_pow x, pow_add (-1 : ℂ)]
  unfold cf
  have hsq : ((-1 : ℂ) ^ (n - k)) * ((-1 : ℂ) ^ (n - k)) = 1 := by
    rw [← mul_pow]; simp
  have h2 : ((m - k).factorial : ℂ) ≠ 0 := by exact_mod_cast Nat.factorial_ne_zero _
  have h3 : ((n - k).factorial : ℂ) ≠ 0 := by exact_mod_cast Nat.factorial_ne_zero _
  have h4 : (k.factorial : ℂ) ≠ 0 := by exact_mod_cast Nat.factorial_ne_zero _
  field_simp
  linear_combination (-(x ^ (m - k + (n - k)))) * hsq

/-- three-term relation in the row index, columns `≥ 1` -/
theorem T_rec_row_succ (m n : ℕ) (x : ℂ) :
    ((m : ℂ) + 1) * T (m + 1) (n + 1) x = T m n x + x * T m (n + 1) x := by
  have h := Pq.DispRec.T_rec_succ n m (-x)
  rw [T_swap (m + 1) (n + 1) (-x), T_swap m n (-x), T_swap m (n + 1) (-x), neg_neg] at h
  linear_combination h

/-- three-term relation in the row index, column `0` -/
theorem T_rec_row_zero (m : ℕ) (x : ℂ) : ((m : ℂ) + 1) * T (m + 1) 0 x = x * T m 0 x := by
  have h := Pq.DispRec.T_rec_zero m (-x)
  rw [T_swap (m + 1) 0 (-x), T_swap m 0 (-x), neg_neg] at h
  linear_combination h

theorem sqrtC_succ_mul_self (n : ℕ) :
    (Real.sqrt ((n + 1 : ℕ) : ℝ) : ℂ) * (Real.sqrt ((n + 1 : ℕ) : ℝ) : ℂ) = (n : ℂ) + 1 := by
  rw [Pq.DispRec.sqrtC_mul_self _ (Nat.cast_nonneg _)]; push_cast; ring

/-- `a D = D (a + α)` -/
theorem disp_annihilation (m n : ℕ) (r φ : ℝ) :
    (Real.sqrt ((m + 1 : ℕ) : ℝ) : ℂ) * dispEntry (m + 1) n r φ
      = (Real.sqrt (n : ℝ) : ℂ) * dispEntry m (n - 1) r φ
        + ((r : ℂ) * Complex.exp (Complex.I * φ)) * dispEntry m n r φ := by
  have hss := sqrtC_succ_mul_self m
  cases n with
  | zero =>
    simp only [Nat.cast_zero, Real.sqrt_zero, Complex.ofReal_zero, zero_mul, zero_add]
    rw [dispEntry_eq, dispEntry_eq, ← nrm_succ_left m 0, ← ph_succ_left m 0]
    have hT := T_rec_row_zero m (r : ℂ)
    linear_combination
      (Complex.exp (-(r : ℂ) ^ 2 / 2) * nrm m 0 * Complex.exp (Complex.I * φ) * ph m 0 φ
          * T (m + 1) 0 r) * hss
      + (Complex.exp (-(r : ℂ) ^ 2 / 2) * nrm m 0 * Complex.exp (Complex.I * φ) * ph m 0 φ) * hT
  | succ n =>
    have P : Complex.exp (Complex.I * φ) * ph m (n + 1) φ = ph m n φ := by
      rw [ph_succ_left, Pq.DispRec.ph_succ_succ]
    rw [Nat.add_sub_cancel, dispEntry_eq, dispEntry_eq, dispEntry_eq, Pq.DispRec.ph_succ_succ,
      ← nrm_succ_left m (n + 1), ← nrm_succ_right m n]
    have hT := T_rec_row_succ m n (r : ℂ)
    linear_combination
      (Complex.exp (-(r : ℂ) ^ 2 / 2) * nrm m n * (Real.sqrt ((n + 1 : ℕ) : ℝ) : ℂ)
          * T (m + 1) (n + 1) r * ph m n φ) * hss
      + (Complex.exp (-(r : ℂ) ^ 2 / 2) * nrm m n * (Real.sqrt ((n + 1 : ℕ) : ℝ) : ℂ) * ph m n φ) * hT
      - (Complex.exp (-(r : ℂ) ^ 2 / 2) * nrm m n * (Real.sqrt ((n + 1 : ℕ) : ℝ) : ℂ)
          * (r : ℂ) * T m (n + 1) r) * P

/-- `a† D = D (a† + conj α)` -/
theorem disp_creation (m n : ℕ) (r φ : ℝ) :
    (Real.sqrt (m : ℝ) : ℂ) * dispEntry (m - 1) n r φ
      = (Real.sqrt ((n + 1 : ℕ) : ℝ) : ℂ) * dispEntry m (n + 1) r φ
        + (starRingEnd ℂ) ((r : ℂ) * Complex.exp (Complex.I * φ)) * dispEntry m n r φ := by
  have hss := sqrtC_succ_mul_self n
  rw [Pq.DispRec.conj_alpha]
  cases m with
  | zero =>
    simp only [Nat.cast_zero, Real.sqrt_zero, Complex.ofReal_zero, zero_mul]
    rw [dispEntry_eq, dispEntry_eq, ← nrm_succ_right 0 n, ← ph_succ_right 0 n]
    have hT := Pq.DispRec.T_rec_zero n (r : ℂ)
    linear_combination
      (-(Complex.exp (-(r : ℂ) ^ 2 / 2) * nrm 0 n * Complex.exp (-(Complex.I * φ)) * ph 0 n φ
          * T 0 (n + 1) r)) * hss
      - (Complex.exp (-(r : ℂ) ^ 2 / 2) * nrm 0 n * Complex.exp (-(Complex.I * φ)) * ph 0 n φ) * hT
  | succ m =>
    have P : Complex.exp (-(Complex.I * φ)) * ph (m + 1) n φ = ph m n φ := by
      rw [ph_succ_right, Pq.DispRec.ph_succ_succ]
    rw [Nat.add_sub_cancel, dispEntry_eq, dispEntry_eq, dispEntry_eq, Pq.DispRec.ph_succ_succ,
      ← nrm_succ_right (m + 1) n, ← nrm_succ_left m n]
    have hT := Pq.DispRec.T_rec_succ m n (r : ℂ)
    linear_combination
      (-(Complex.exp (-(r : ℂ) ^ 2 / 2) * nrm m n * (Real.sqrt ((m + 1 : ℕ) : ℝ) : ℂ)
          * T (m + 1) (n + 1) r * ph m n φ)) * hss
      - (Complex.exp (-(r : ℂ) ^ 2 / 2) * nrm m n * (Real.sqrt ((m + 1 : ℕ) : ℝ) : ℂ) * ph m n φ) * hT
      - (Complex.exp (-(r : ℂ) ^ 2 / 2) * nrm m n * (Real.sqrt ((m + 1 : ℕ) : ℝ) : ℂ)
          * (r : ℂ) * T (m + 1) n r) * P

/-- the vacuum column of the displacement matrix is the coherent state -/
theorem disp_vacuum (m : ℕ) (r φ : ℝ) :
    dispEntry m 0 r φ = Complex.exp (-(r : ℂ) ^ 2 / 2) * ((r : ℂ) * Complex.exp (Complex.I * φ)) ^ m
      / (Real.sqrt (m.factorial : ℝ) : ℂ) := by
  rw [← Pq.DispRec.entry_eq_dispEntry 0 r φ m 0]
  unfold Pq.DispRec.entry
  rw [Pq.DispRec.col]
  simp only [Nat.factorial_zero, Nat.cast_one, Real.sqrt_one, Complex.ofReal_one, div_one]
  rw [mul_div_assoc]

/-! ### squeezing: Euler identity in `(s, x)` and the parameter relations -/

/-- Euler identity in `(s, x)`: `m Q = s ∂_s Q + 2 x ∂_x Q` -/
theorem euler_m (m n : ℕ) (x y s : ℂ) :
    (m : ℂ) * Q m n x y s = s * Us m n x y s + 2 * x * Ux m n x y s := by
  unfold Q Us Ux
  rw [Finset.mul_sum, Finset.mul_sum, Finset.mul_sum, ← Finset.sum_add_distrib]
  refine Finset.sum_congr rfl fun k hk => ?_
  have hk' : k ≤ m ∧ k ≤ n := by have := Finset.mem_range.mp hk; omega
  split_ifs with h
  · have hm : m = k + 2 * ((m - k) / 2) := by omega
    have hm' : (m : ℂ) = (k : ℂ) + 2 * (((m - k) / 2 : ℕ) : ℂ) := by exact_mod_cast hm
    have h1 := cast_mul_pow_pred k s
    have h2 := cast_mul_pow_pred ((m - k) / 2) x
    rw [hm']
    linear_combination
      (-(x ^ ((m - k) / 2) * y ^ ((n - k) / 2)
          / ((k.factorial : ℂ) * (((m - k) / 2).factorial : ℂ) * (((n - k) / 2).factorial : ℂ)))) * h1
      + (-2 * (y ^ ((n - k) / 2) * s ^ k
          / ((k.factorial : ℂ) * (((m - k) / 2).factorial : ℂ) * (((n - k) / 2).factorial : ℂ)))) * h2
  · simp

theorem Ux_succ_succ (m n : ℕ) (x y s : ℂ) : Ux (m + 1) (n + 1) x y s = Us m (n + 2) x y s := by
  cases m with
  | zero => rw [Ux_one, Us_zero_left]
  | succ m => rw [Ux_shift, Us_shift]

theorem s_mul_Ux_zero (m : ℕ) (x y s : ℂ) : s * Ux (m + 1) 0 x y s = Q m 1 x y s := by
  cases m with
  | zero => rw [Ux_one, Q_zero_one, mul_zero]
  | succ m => rw [Ux_shift, Q_succ_one]

/-- row recurrence of the coefficient polynomial, columns `≥ 1` -/
theorem ann_Q_succ (m n : ℕ) (x y s : ℂ) :
    s * (((m : ℂ) + 1) * Q (m + 1) (n + 1) x y s) =
      (s ^ 2 - 4 * x * y) * Q m n x y s + 2 * x * (((n : ℂ) + 2) * Q m (n + 2) x y s) := by
  have E1 := euler_m (m + 1) (n + 1) x y s
  rw [Us_shift, Ux_succ_succ] at E1
  have E2 := euler_n m (n + 2) x y s
  rw [Uy_shift] at E2
  push_cast at E1 E2
  linear_combination s * E1 - 2 * x * E2

/-- row recurrence of the coefficient polynomial, column `0` -/
theorem ann_Q_zero (m : ℕ) (x y s : ℂ) :
    s * (((m : ℂ) + 1) * Q (m + 1) 0 x y s) = 2 * x * Q m 1 x y s := by
  have E1 := euler_m (m + 1) 0 x y s
  rw [Us_zero_right] at E1
  have E2 := s_mul_Ux_zero m x y s
  push_cast at E1
  linear_combination s * E1 + 2 * x * E2

theorem sech_mul_cosh (r : ℝ) : ((1 / Real.cosh r : ℝ) : ℂ) * (Real.cosh r : ℂ) = 1 := by
  have hne : Real.cosh r ≠ 0 := ne_of_gt (Real.cosh_pos r)
  rw [← Complex.ofReal_mul, one_div, inv_mul_cancel₀ hne, Complex.ofReal_one]

theorem tanh_eq_sinh_mul_sech (r : ℝ) :
    (Real.tanh r : ℂ) = (Real.sinh r : ℂ) * ((1 / Real.cosh r : ℝ) : ℂ) := by
  rw [Real.tanh_eq_sinh_div_cosh, ← Complex.ofReal_mul, div_eq_mul_one_div]

theorem sech_sq_add_tanh_sq (r : ℝ) :
    ((1 / Real.cosh r : ℝ) : ℂ) ^ 2 + (Real.tanh r : ℂ) ^ 2 = 1 := by
  have h1 := sech_mul_cosh r
  have h2 : (Real.cosh r : ℂ) ^ 2 = (Real.sinh r : ℂ) ^ 2 + 1 := by exact_mod_cast Real.cosh_sq r
  rw [tanh_eq_sinh_mul_sech]
  linear_combination (((1 / Real.cosh r : ℝ) : ℂ) * (Real.cosh r : ℂ) + 1) * h1
    - ((1 / Real.cosh r : ℝ) : ℂ) ^ 2 * h2

theorem exp_mul_exp_neg (φ : ℝ) :
    Complex.exp (Complex.I * φ) * Complex.exp (-(Complex.I * φ)) = 1 := by
  rw [← Complex.exp_add, add_neg_cancel, Complex.exp_zero]

theorem passive_entry (r φ : ℝ) : Squeezing_passive r φ 0 0 = (Real.cosh r : ℂ) := by
  simp [Squeezing_passive]

theorem active_entry (r φ : ℝ) :
    Squeezing_active r φ 0 0 = -(Real.sinh r : ℂ) * Complex.exp (Complex.I * φ) := by
  simp [Squeezing_active]

theorem conj_active (r φ : ℝ) :
    (starRingEnd ℂ) (-(Real.sinh r : ℂ) * Complex.exp (Complex.I * φ)) =
      -(Real.sinh r : ℂ) * Complex.exp (-(Complex.I * φ)) := by
  rw [map_mul, map_neg, Complex.conj_ofReal, ← Complex.exp_conj, map_mul, Complex.conj_I,
    Complex.conj_ofReal, neg_mul Complex.I]

theorem sq_relations (r φ : ℝ) :
    2 * (-(Complex.exp (Complex.I * φ) * (Real.tanh r : ℂ)) / 2) =
        -(Complex.exp (Complex.I * φ) * (Real.sinh r : ℂ) * ((1 / Real.cosh r : ℝ) : ℂ)) ∧
    2 * ((Complex.exp (-(Complex.I * φ)) * (Real.tanh r : ℂ)) / 2) =
        Complex.exp (-(Complex.I * φ)) * (Real.sinh r : ℂ) * ((1 / Real.cosh r : ℝ) : ℂ) ∧
    ((1 / Real.cosh r : ℝ) : ℂ) ^ 2
      - 4 * (-(Complex.exp (Complex.I * φ) * (Real.tanh r : ℂ)) / 2)
          * ((Complex.exp (-(Complex.I * φ)) * (Real.tanh r : ℂ)) / 2) = 1 := by
  refine ⟨?_, ?_, ?_⟩
  · rw [tanh_eq_sinh_mul_sech]; ring
  · rw [tanh_eq_sinh_mul_sech]; ring
  · linear_combination sech_sq_add_tanh_sq r + (Real.tanh r : ℂ) ^ 2 * exp_mul_exp_neg φ

theorem ann_key_zero (m : ℕ) (x y s C Sh e : ℂ) (R1 : s * C = 1) (R2 : 2 * x = -(e * Sh * s)) :
    ((m : ℂ) + 1) * Q (m + 1) 0 x y s = -(Sh * e) * Q m 1 x y s := by
  have A := ann_Q_zero m x y s
  linear_combination C * A - (((m : ℂ) + 1) * Q (m + 1) 0 x y s) * R1
    + Q m 1 x y s * (C * R2 - e * Sh * R1)

theorem ann_key_succ (m n : ℕ) (x y s C Sh e : ℂ) (R1 : s * C = 1) (R2 : 2 * x = -(e * Sh * s))
    (R3 : s ^ 2 - 4 * x * y = 1) :
    ((m : ℂ) + 1) * Q (m + 1) (n + 1) x y s =
      C * Q m n x y s - Sh * e * (((n : ℂ) + 2) * Q m (n + 2) x y s) := by
  have A := ann_Q_succ m n x y s
  linear_combination C * A - (((m : ℂ) + 1) * Q (m + 1) (n + 1) x y s) * R1
    + C * Q m n x y s * R3
    + (((n : ℂ) + 2) * Q m (n + 2) x y s) * (C * R2 - e * Sh * R1)

theorem cre_key (m n : ℕ) (x y s C Sh e' : ℂ) (R1 : s * C = 1) (R2' : 2 * y = e' * Sh * s) :
    Us m (n + 1) x y s - C * (((n : ℂ) + 1) * Q m (n + 1) x y s) + Sh * e' * Uy m (n + 1) x y s = 0 := by
  have E := euler_n m (n + 1) x y s
  push_cast at E
  linear_combination -C * E - Us m (n + 1) x y s * R1
    + Uy m (n + 1) x y s * (-C * R2' - e' * Sh * R1)

/-- `a S = S (P a + A a†)` with the regenerated blocks of `pq.Squeezing` -/
theorem squeeze_annihilation (m n : ℕ) (r φ : ℝ) :
    (Real.sqrt ((m + 1 : ℕ) : ℝ) : ℂ) * sqEntry (m + 1) n r φ
      = Squeezing_passive r φ 0 0 * (Real.sqrt (n : ℝ) : ℂ) * sqEntry m (n - 1) r φ
        + Squeezing_active r φ 0 0 * (Real.sqrt ((n + 1 : ℕ) : ℝ) : ℂ) * sqEntry m (n + 1) r φ := by
  rw [passive_entry, active_entry]
  have R1 := sech_mul_cosh r
  obtain ⟨R2, -, R3⟩ := sq_relations r φ
  have hss := sqrtC_succ_mul_self m
  cases n with
  | zero =>
    simp only [Nat.cast_zero, Real.sqrt_zero, Complex.ofReal_zero, mul_zero, zero_mul]
    rw [sqEntry_eq, sqEntry_eq, ← nrm_succ_left m 0, ← nrm_succ_right m 0]
    have hs1 := sqrtC_succ_mul_self 0
    rw [Nat.cast_zero, zero_add] at hs1
    generalize -(Complex.exp (Complex.I * φ) * (Real.tanh r : ℂ)) / 2 = x at *
    generalize (Complex.exp (-(Complex.I * φ)) * (Real.tanh r : ℂ)) / 2 = y at *
    generalize ((1 / Real.cosh r : ℝ) : ℂ) = s at *
    have key := ann_key_zero m x y s _ _ _ R1 R2
    linear_combination
      ((Real.sqrt (1 / Real.cosh r) : ℂ) * nrm m 0 * Q (m + 1) 0 x y s) * hss
      + ((Real.sqrt (1 / Real.cosh r) : ℂ) * nrm m 0 * (Real.sinh r : ℂ)
          * Complex.exp (Complex.I * φ) * Q m (0 + 1) x y s) * hs1
      + ((Real.sqrt (1 / Real.cosh r) : ℂ) * nrm m 0) * key
  | succ n =>
    rw [Nat.add_sub_cancel, sqEntry_eq, sqEntry_eq, sqEntry_eq, ← nrm_succ_left m (n + 1),
      ← nrm_succ_right m (n + 1), ← nrm_succ_right m n]
    have hs2 : (Real.sqrt ((n + 1 + 1 : ℕ) : ℝ) : ℂ) * (Real.sqrt ((n + 1 + 1 : ℕ) : ℝ) : ℂ)
        = (n : ℂ) + 2 := by
      rw [sqrtC_succ_mul_self]; push_cast; ring
    generalize -(Complex.exp (Complex.I * φ) * (Real.tanh r : ℂ)) / 2 = x at *
    generalize (Complex.exp (-(Complex.I * φ)) * (Real.tanh r : ℂ)) / 2 = y at *
    generalize ((1 / Real.cosh r : ℝ) : ℂ) = s at *
    have key := ann_key_succ m n x y s _ _ _ R1 R2 R3
    linear_combination
      ((Real.sqrt (1 / Real.cosh r) : ℂ) * (Real.sqrt ((n + 1 : ℕ) : ℝ) : ℂ) * nrm m n
          * Q (m + 1) (n + 1) x y s) * hss
      + ((Real.sqrt (1 / Real.cosh r) : ℂ) * (Real.sqrt ((n + 1 : ℕ) : ℝ) : ℂ) * nrm m n
          * (Real.sinh r : ℂ) * Complex.exp (Complex.I * φ) * Q m (n + 1 + 1) x y s) * hs2
      + ((Real.sqrt (1 / Real.cosh r) : ℂ) * (Real.sqrt ((n + 1 : ℕ) : ℝ) : ℂ) * nrm m n) * key

/-- `a† S = S (conj P a† + conj A a)` -/
theorem squeeze_creation (m n : ℕ) (r φ : ℝ) :
    (Real.sqrt (m : ℝ) : ℂ) * sqEntry (m - 1) n r φ
      = (starRingEnd ℂ) (Squeezing_passive r φ 0 0) * (Real.sqrt ((n + 1 : ℕ) : ℝ) : ℂ) * sqEntry m (n + 1) r φ
        + (starRingEnd ℂ) (Squeezing_active r φ 0 0) * (Real.sqrt (n : ℝ) : ℂ) * sqEntry m (n - 1) r φ := by
  rw [passive_entry, active_entry, Complex.conj_ofReal, conj_active, sqEntry_eq, sqEntry_eq, sqEntry_eq]
  have R1 := sech_mul_cosh r
  obtain ⟨-, R2', -⟩ := sq_relations r φ
  have hss := sqrtC_succ_mul_self n
  generalize -(Complex.exp (Complex.I * φ) * (Real.tanh r : ℂ)) / 2 = x at *
  generalize (Complex.exp (-(Complex.I * φ)) * (Real.tanh r : ℂ)) / 2 = y at *
  generalize ((1 / Real.cosh r : ℝ) : ℂ) = s at *
  have Ls := lower_s m (n + 1) x y s
  rw [Nat.add_sub_cancel, Real.sqrt_mul (Nat.cast_nonneg m), Complex.ofReal_mul] at Ls
  have Ly := lower_y m (n + 1) x y s
  have e : n + 1 - 2 = n - 1 := by omega
  have hc : ((n + 1 : ℕ) : ℝ) - 1 = (n : ℝ) := by push_cast; ring
  rw [e, hc, Real.sqrt_mul (Nat.cast_nonneg _), Complex.ofReal_mul] at Ly
  have key := cre_key m n x y s _ _ _ R1 R2'
  apply mul_left_cancel₀ (sqrtC_ne_zero n)
  linear_combination
    (Real.sqrt (1 / Real.cosh r) : ℂ) * Ls
    - ((Real.sqrt (1 / Real.cosh r) : ℂ) * (Real.cosh r : ℂ) * nrm m (n + 1) * Q m (n + 1) x y s) * hss
    + ((Real.sqrt (1 / Real.cosh r) : ℂ) * (Real.sinh r : ℂ) * Complex.exp (-(Complex.I * φ))) * Ly
    + ((Real.sqrt (1 / Real.cosh r) : ℂ) * nrm m (n + 1)) * key

end Pq.Intertwine
