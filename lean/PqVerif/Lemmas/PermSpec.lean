import Mathlib.Tactic
import PqVerif.Lemmas.PermLaws
import PqVerif.Lemmas.Glynn

/-!
C04: the value computed by the model of `permanent_cpp` IS the permanent with row and column
multiplicities, i.e. the defining sum over bijections between the expanded columns and the
expanded rows (Glynn's formula `Pq.Glynn.glynn_mult_gen` + the algorithm theorems of `PermLaws`).
-/
namespace Pq.Kernel
open BigOperators

variable {K : Type} [Field K] [CharZero K]

/-- the definition: the permanent of the matrix in which row `i` is repeated `rows i` times and column
`j` is repeated `cols j` times, as the sum over all bijections between expanded columns and rows -/
noncomputable def permSpec {n m : Nat} (A : Fin n → Fin m → K) (rows : Fin n → Nat) (cols : Fin m → Nat) : K :=
  ∑ σ : (Σ j, Fin (cols j)) ≃ (Σ i, Fin (rows i)), ∏ j, A (σ j).1 j.1

/-- list form of a matrix / vector given by functions -/
def matList {n m : Nat} (A : Fin n → Fin m → K) : List (List K) :=
  (List.finRange n).map (fun i => (List.finRange m).map (fun j => A i j))
def vecList {n : Nat} (v : Fin n → Nat) : List Nat := (List.finRange n).map v

section Helpers
omit [CharZero K]

/-! ### lists given by functions on `Fin n` -/

theorem vecList_length {n : Nat} (v : Fin n → Nat) : (vecList v).length = n := by simp [vecList]

theorem vecList_sum {n : Nat} (v : Fin n → Nat) : (vecList v).sum = ∑ i, v i := by
  rw [Fin.sum_univ_def]; rfl

theorem vecList_getD {n : Nat} (v : Fin n → Nat) (i : Fin n) : (vecList v).getD i 0 = v i := by
  simp [vecList, List.getD_eq_getElem?_getD]

theorem vecList_getD_ge {n : Nat} (v : Fin n → Nat) (i : Nat) (h : n ≤ i) : (vecList v).getD i 0 = 0 := by
  simp [vecList, List.getD_eq_getElem?_getD, h]

theorem eq_vecList (l : List Nat) (n : Nat) (h : l.length = n) :
    l = vecList (fun i : Fin n => l.getD i 0) := by
  subst h
  apply List.ext_getElem
  · simp [vecList]
  · intro i h1 h2
    simp [vecList, List.getD_eq_getElem?_getD]

theorem vecList_map {n : Nat} (v : Fin n → Nat) (f : Nat → Nat) :
    (vecList v).map f = vecList (fun i => f (v i)) := by
  simp [vecList, List.map_map, Function.comp_def]

theorem vecList_set {n : Nat} (v : Fin n → Nat) (k : Fin n) (x : Nat) :
    (vecList v).set k x = vecList (fun i => if i = k then x else v i) := by
  apply List.ext_getElem
  · simp [vecList]
  · intro i h1 h2
    simp only [vecList, List.getElem_set, List.getElem_map, List.getElem_finRange]
    simp [Fin.ext_iff, eq_comm]

omit [Field K] in
theorem matList_length {n m : Nat} (A : Fin n → Fin m → K) : (matList A).length = n := by
  simp [matList]

omit [Field K] in
theorem rowAt_matList {n m : Nat} (A : Fin n → Fin m → K) (i : Fin n) :
    rowAt (matList A) i = (List.finRange m).map (A i) := by
  simp [rowAt, matList, List.getD_eq_getElem?_getD]

theorem zipIdx_finRange_map {α : Type} {n : Nat} (f : Fin n → α) :
    ((List.finRange n).map f).zipIdx = (List.finRange n).map (fun i => (f i, i.val)) := by
  apply List.ext_getElem
  · simp
  · intro i h1 h2
    simp

theorem total_eq_prod (l : List Nat) : total l = l.prod := by
  induction l with
  | nil => rfl
  | cons a l ih => rw [total_cons, List.prod_cons, ih]

theorem total_vecList {n : Nat} (v : Fin n → Nat) : total (vecList v) = ∏ i, v i := by
  rw [total_eq_prod, Fin.prod_univ_def]; rfl

theorem powK_eq (x : K) (k : Nat) : powK x k = x ^ k := by
  induction k with
  | zero => simp [powK]
  | succ k ih => rw [powK, ih, pow_succ]

/-! ### the summand -/

theorem foldl_mul_eq {α : Type} (l : List α) (h : α → K) (a : K) :
    l.foldl (fun acc p => acc * h p) a = a * (l.map h).prod := by
  induction l generalizing a with
  | nil => simp
  | cons x l ih => simp only [List.foldl_cons, List.map_cons, List.prod_cons, ih]; ring

theorem colsumProd_fin {m : Nat} (s : Int) (f : Fin m → K) (c : Fin m → Nat) :
    colsumProd s ((List.finRange m).map f) (vecList c) = (s : K) * ∏ j, f j ^ c j := by
  unfold colsumProd vecList
  rw [List.zip_map', foldl_mul_eq _ (fun p : K × Nat => powK p.1 p.2), List.map_map, Fin.prod_univ_def]
  simp only [Function.comp_def, powK_eq]

theorem binProd_eq_prod (ms gs : List Nat) :
    binProd 1 ms gs = ((ms.zip gs).map (fun p => (Nat.choose p.1 p.2 : Int))).prod := by
  induction ms generalizing gs with
  | nil => simp [binProd]
  | cons m ms ih =>
    cases gs with
    | nil => simp [binProd]
    | cons g gs => rw [binProd_cons, ih]; simp

theorem binomInit_fin {n : Nat} (μ g : Fin n → Nat) :
    binomInit false (vecList μ) (vecList g) = ∏ i, ((μ i).choose (g i) : Int) := by
  rw [binomInit_false, binProd_eq_prod, Fin.prod_univ_def]
  unfold vecList
  rw [List.zip_map', List.map_map]
  rfl

theorem colFold_fin {n m : Nat} (A' : List (List K)) (A : Fin n → Fin m → K) (μ g : Fin n → Nat)
    (hA : ∀ i : Fin n, rowAt A' (i.val + 1) = (List.finRange m).map (A i))
    (l : List (Fin n)) (c : Fin m → K) :
    (l.map (fun i => ((μ i, g i), i.val))).foldl (colStep A') ((List.finRange m).map c) =
      (List.finRange m).map (fun j => c j +
        (l.map (fun i => A i j * ((((μ i : Nat) : Int) - 2 * ((g i : Nat) : Int) : Int) : K))).sum) := by
  induction l generalizing c with
  | nil => simp
  | cons i l ih =>
    simp only [List.map_cons, List.foldl_cons, List.sum_cons]
    have : colStep A' ((List.finRange m).map c) ((μ i, g i), i.val) =
        (List.finRange m).map (fun j => c j + A i j * ((((μ i : Nat) : Int) - 2 * ((g i : Nat) : Int) : Int) : K)) := by
      simp only [colStep, hA i, List.zip_map', List.map_map, Function.comp_def]
    rw [this, ih]
    simp only [add_assoc]

theorem colsumOf_fin {n m : Nat} (a₀ : Fin m → K) (A : Fin n → Fin m → K) (μ g : Fin n → Nat) :
    colsumOf ((List.finRange m).map a₀ :: matList A) (vecList μ) (vecList g) =
      (List.finRange m).map (fun j => a₀ j +
        ∑ i, A i j * ((((μ i : Nat) : Int) - 2 * ((g i : Nat) : Int) : Int) : K)) := by
  rw [colsumOf_eq]
  have h1 : ((vecList μ).zip (vecList g)).zipIdx =
      (List.finRange n).map (fun i => ((μ i, g i), i.val)) := by
    unfold vecList
    rw [List.zip_map', zipIdx_finRange_map]
  have h2 : rowAt ((List.finRange m).map a₀ :: matList A) 0 = (List.finRange m).map a₀ := by
    simp [rowAt]
  rw [h1, h2, colFold_fin _ A μ g (fun i => by
    have := rowAt_matList A i
    simpa [rowAt] using this)]
  simp only [Fin.sum_univ_def]

theorem par_eq (l : List Nat) : ((if l.sum % 2 = 0 then 1 else -1 : Int) : K) = (-1) ^ l.sum := by
  rcases Nat.even_or_odd l.sum with h | h
  · rw [if_pos (Nat.even_iff.mp h), h.neg_one_pow]; simp
  · rw [if_neg (by rw [Nat.odd_iff.mp h]; decide), h.neg_one_pow]; simp

/-- the summand at a gray code given by a function -/
theorem term_fin {n m : Nat} (a₀ : Fin m → K) (A : Fin n → Fin m → K) (μ : Fin n → Nat)
    (c : Fin m → Nat) (limits : List Nat) (o : Nat) (g : Fin n → Nat)
    (hg : grayOf limits o = vecList g) :
    term ((List.finRange m).map a₀ :: matList A) (vecList μ) (vecList c) limits o =
      (-1) ^ (∑ i, g i) * (∏ i, ((μ i).choose (g i) : K)) *
        ∏ j, (a₀ j + ∑ i, ((μ i : ℤ) - 2 * (g i : ℤ) : ℤ) • A i j) ^ (c j) := by
  unfold term
  simp only [hg]
  rw [colsumOf_fin, colsumProd_fin, binomInit_fin, par_eq, vecList_sum]
  push_cast
  simp only [zsmul_eq_mul]
  have : ∀ j, (∑ i, A i j * ((μ i : K) - 2 * (g i : K))) = ∑ i, ((μ i : K) - 2 * (g i : K)) * A i j :=
    fun j => Finset.sum_congr rfl fun i _ => mul_comm _ _
  simp only [this]
  push_cast
  ring


/-! ### minIdx -/

def minStep (st : Nat × Nat) (x : Nat × Nat) : Nat × Nat :=
  if st.2 = 0 ∨ (x.1 < st.2 ∧ x.1 ≠ 0) then (x.2, x.1) else st

theorem minIdx_append (l : List Nat) (x : Nat) :
    minIdx (l ++ [x]) = minStep (minIdx l) (x, l.length) := by
  unfold minIdx
  rw [List.zipIdx_append, List.foldl_append]
  simp [minStep]

theorem minIdx_spec (l : List Nat) :
    ((minIdx l).2 = 0 → ∀ y ∈ l, y = 0) ∧
    ((minIdx l).2 ≠ 0 → (minIdx l).1 < l.length ∧ l.getD (minIdx l).1 0 = (minIdx l).2) := by
  induction l using List.reverseRecOn with
  | nil => simp [minIdx]
  | append_singleton l x ih =>
    rw [minIdx_append]
    obtain ⟨ih1, ih2⟩ := ih
    generalize minIdx l = st at ih1 ih2
    unfold minStep
    split_ifs with h
    · refine ⟨?_, ?_⟩
      · intro hx
        simp only at hx
        rcases h with h | h
        · intro y hy
          rcases List.mem_append.mp hy with hy | hy
          · exact ih1 h y hy
          · simp at hy; omega
        · exact absurd hx h.2
      · intro _
        simp [List.getD_eq_getElem?_getD]
    · push Not at h
      refine ⟨fun h0 => absurd h0 h.1, fun _ => ?_⟩
      obtain ⟨h1, h2⟩ := ih2 h.1
      refine ⟨by simp; omega, ?_⟩
      rw [← h2]
      simp [List.getD_eq_getElem?_getD, List.getElem?_append_left h1]

theorem vecList_injective {n : Nat} : Function.Injective (vecList (n := n)) := by
  intro v w h
  funext i
  rw [← vecList_getD v i, ← vecList_getD w i, h]

theorem list_sum_range (T : Nat → K) (N : Nat) :
    ((List.range N).map T).sum = ∑ o ∈ Finset.range N, T o := by
  induction N with
  | zero => simp
  | succ N ih => rw [List.range_succ, List.map_append, List.sum_append, ih, Finset.sum_range_succ]; simp

/-- the Gray-code offsets enumerate the box `Π [0, μ i]` exactly once -/
theorem gray_sum {n : Nat} (μ : Fin n → Nat) (F : (Fin n → Nat) → K) (T : Nat → K)
    (hT : ∀ o g, grayOf ((vecList μ).map (· + 1)) o = vecList g → T o = F g) :
    ((List.range (total ((vecList μ).map (· + 1)))).map T).sum =
      ∑ g ∈ Fintype.piFinset (fun i => Finset.range (μ i + 1)), F g := by
  set limits := (vecList μ).map (· + 1) with hlim
  have hpos : ∀ k ∈ limits, 0 < k := limits_pos _
  have hlen : limits.length = n := by simp [hlim, vecList_length]
  have hlimD : ∀ i : Fin n, limits.getD i 0 = μ i + 1 := by
    intro i
    rw [hlim, vecList_map, vecList_getD]
  let φ : Nat → Fin n → Nat := fun o i => (grayOf limits o).getD i 0
  have hφ : ∀ o, grayOf limits o = vecList (φ o) := fun o =>
    eq_vecList _ n (by rw [(grayOf_lt limits hpos o).1, hlen])
  have hinj : Set.InjOn φ (Finset.range (total limits) : Set Nat) := by
    intro a ha b hb hab
    refine grayOf_injective limits hpos a b (by simpa using ha) (by simpa using hb) ?_
    rw [hφ a, hφ b]
    exact congrArg vecList hab
  have himg : (Finset.range (total limits)).image φ =
      Fintype.piFinset (fun i => Finset.range (μ i + 1)) := by
    apply Finset.eq_of_subset_of_card_le
    · intro g hg
      obtain ⟨o, _, rfl⟩ := Finset.mem_image.mp hg
      rw [Fintype.mem_piFinset]
      intro i
      rw [Finset.mem_range, ← hlimD i]
      exact (grayOf_lt limits hpos o).2 i (by rw [hlen]; exact i.2)
    · rw [Finset.card_image_of_injOn hinj, Fintype.card_piFinset, Finset.card_range, hlim,
        vecList_map, total_vecList]
      simp
  rw [list_sum_range, ← himg, Finset.sum_image hinj]
  exact Finset.sum_congr rfl fun o _ => hT o _ (hφ o)

/-! ### removing one copy of a row -/

section Equiv
variable {ν : Type} [DecidableEq ν] (r : ν → Nat) (k : ν)

/-- the multiplicities after one copy of row `k` has been split off -/
def decRow : ν → Nat := fun i => if i = k then r k - 1 else r i

theorem decRow_le (i : ν) : decRow r k i ≤ r i := by
  unfold decRow; split_ifs with h
  · subst h; omega
  · exact le_rfl

/-- `none ↦` the last copy of row `k`, `some ⟨i, l⟩ ↦ ⟨i, l⟩` -/
def unsplit (hk : r k ≠ 0) : Option (Σ i, Fin (decRow r k i)) → Σ i, Fin (r i)
  | none => ⟨k, ⟨r k - 1, by omega⟩⟩
  | some x => ⟨x.1, Fin.castLE (decRow_le r k x.1) x.2⟩

theorem unsplit_fst (hk : r k ≠ 0) (x : Option (Σ i, Fin (decRow r k i))) :
    (unsplit r k hk x).1 = x.elim k (fun y => y.1) := by
  cases x <;> rfl

theorem unsplit_bijective (hk : r k ≠ 0) : Function.Bijective (unsplit r k hk) := by
  constructor
  · rintro (_ | ⟨i, l⟩) (_ | ⟨i', l'⟩) h
    · rfl
    · exfalso
      simp only [unsplit, Sigma.mk.injEq] at h
      obtain ⟨rfl, h⟩ := h
      have h : r k - 1 = l'.val := congrArg Fin.val (eq_of_heq h)
      have hl := l'.2
      simp only [decRow, if_true] at hl
      omega
    · exfalso
      simp only [unsplit, Sigma.mk.injEq] at h
      obtain ⟨rfl, h⟩ := h
      have h : l.val = r i - 1 := congrArg Fin.val (eq_of_heq h)
      have hl := l.2
      simp only [decRow, if_true] at hl
      omega
    · simp only [unsplit, Sigma.mk.injEq] at h
      obtain ⟨rfl, h⟩ := h
      have h := Fin.castLE_injective _ (eq_of_heq h)
      rw [h]
  · rintro ⟨i, l⟩
    by_cases h : i = k ∧ l.val = r k - 1
    · obtain ⟨rfl, h⟩ := h
      exact ⟨none, by simp only [unsplit]; congr 1; exact Fin.ext h.symm⟩
    · have hl : l.val < decRow r k i := by
        unfold decRow
        split_ifs with hi
        · subst hi
          have := l.2
          have : l.val ≠ r i - 1 := fun h' => h ⟨rfl, h'⟩
          omega
        · exact l.2
      exact ⟨some ⟨i, ⟨l.val, hl⟩⟩, by simp [unsplit]⟩

theorem sum_decRow [Fintype ν] (hk : r k ≠ 0) : 1 + ∑ i, decRow r k i = ∑ i, r i := by
  have : ∀ i, r i = decRow r k i + if i = k then 1 else 0 := by
    intro i; unfold decRow; split_ifs with h
    · subst h; omega
    · rfl
  conv_rhs => rw [Finset.sum_congr rfl fun i _ => this i]
  rw [Finset.sum_add_distrib]
  simp [add_comm]

/-- the sum over bijections onto the split rows is the sum over bijections onto all rows -/
theorem sum_unsplit [Fintype ν] {γ : Type} [Fintype γ] [DecidableEq γ] (c : γ → Nat) (hk : r k ≠ 0)
    (A : ν → γ → K) :
    ∑ σ : (Σ j, Fin (c j)) ≃ Option (Σ i, Fin (decRow r k i)),
        ∏ j, Pq.Glynn.expand (decRow r k) c (A k) A (σ j) j =
      ∑ σ : (Σ j, Fin (c j)) ≃ (Σ i, Fin (r i)), ∏ j, A (σ j).1 j.1 := by
  refine Fintype.sum_equiv
    (Equiv.equivCongr (Equiv.refl _) (Equiv.ofBijective _ (unsplit_bijective r k hk))) _ _ fun σ => ?_
  refine Finset.prod_congr rfl fun j _ => ?_
  simp only [Equiv.equivCongr_apply_apply, Equiv.refl_symm, Equiv.refl_apply,
    Equiv.ofBijective_apply]
  cases σ j <;> rfl

end Equiv

/-! ### the row splitting on function-given input -/

omit [Field K] in
theorem splitRow_zero {n m : Nat} (A : Fin n → Fin m → K) (rows : Fin n → Nat)
    (h : ∑ i, rows i = 0) :
    splitRow (matList A) (vecList rows) = (matList A, vecList rows) := by
  have spec := (minIdx_spec (vecList rows)).2
  unfold splitRow
  generalize minIdx (vecList rows) = p at spec
  obtain ⟨mi, me⟩ := p
  simp only
  rw [if_neg]
  rintro ⟨_, hme⟩
  obtain ⟨h1, h2⟩ := spec hme
  rw [vecList_length] at h1
  have := vecList_getD rows ⟨mi, h1⟩
  simp only at this h2
  rw [h2] at this
  have h0 : rows ⟨mi, h1⟩ = 0 := by
    have := (Finset.sum_eq_zero_iff (s := Finset.univ) (f := rows)).mp h ⟨mi, h1⟩ (Finset.mem_univ _)
    exact this
  omega

omit [Field K] in
theorem splitRow_pos {n m : Nat} (A : Fin n → Fin m → K) (rows : Fin n → Nat)
    (h : ∑ i, rows i ≠ 0) :
    ∃ k : Fin n, rows k ≠ 0 ∧ splitRow (matList A) (vecList rows) =
      ((List.finRange m).map (A k) :: matList A, 1 :: vecList (decRow rows k)) := by
  have spec := minIdx_spec (vecList rows)
  unfold splitRow
  generalize minIdx (vecList rows) = p at spec
  obtain ⟨mi, me⟩ := p
  simp only at spec ⊢
  have hme : me ≠ 0 := by
    intro h0
    apply h
    rw [← vecList_sum]
    exact List.sum_eq_zero (spec.1 h0)
  obtain ⟨h1, h2⟩ := spec.2 hme
  rw [vecList_length] at h1
  have hk := vecList_getD rows ⟨mi, h1⟩
  simp only at hk
  refine ⟨⟨mi, h1⟩, by omega, ?_⟩
  rw [if_pos ⟨by rw [vecList_length]; omega, hme⟩, hk]
  have h3 := rowAt_matList A ⟨mi, h1⟩
  have h4 := vecList_set rows ⟨mi, h1⟩ (rows ⟨mi, h1⟩ - 1)
  simp only at h3 h4
  rw [h3, h4]
  rfl

theorem permSpec_of_sum_zero {n m : Nat} (A : Fin n → Fin m → K) (rows : Fin n → Nat)
    (cols : Fin m → Nat) (hr : ∑ i, rows i = 0) (hc : ∑ j, cols j = 0) :
    permSpec A rows cols = 1 := by
  have hr' : ∀ i, rows i = 0 := fun i =>
    (Finset.sum_eq_zero_iff (s := Finset.univ) (f := rows)).mp hr i (Finset.mem_univ _)
  have hc' : ∀ j, cols j = 0 := fun j =>
    (Finset.sum_eq_zero_iff (s := Finset.univ) (f := cols)).mp hc j (Finset.mem_univ _)
  have : IsEmpty (Σ i, Fin (rows i)) := ⟨fun x => by have := x.2.2; have := hr' x.1; omega⟩
  have : IsEmpty (Σ j, Fin (cols j)) := ⟨fun x => by have := x.2.2; have := hc' x.1; omega⟩
  unfold permSpec
  rw [Fintype.sum_eq_single (Equiv.equivOfIsEmpty _ _)
    (fun σ hσ => absurd (Equiv.ext fun x => isEmptyElim x) hσ)]
  simp

end Helpers

/-- **the kernel computes the permanent**: for every matrix, every multiplicity pattern with equal
totals, every thread count ≥ 1 (in exact arithmetic, with unbounded integer weights) -/
theorem permanent_eq_permSpec {n m : Nat} (A : Fin n → Fin m → K) (rows : Fin n → Nat)
    (cols : Fin m → Nat) (threads : Nat) (ht : 0 < threads)
    (hsum : ∑ i, rows i = ∑ j, cols j) :
    permanent false threads (matList A) (vecList rows) (vecList cols) = some (permSpec A rows cols) := by
  rw [permanent_eq _ _ _ _ ht]
  by_cases h0 : ∑ i, rows i = 0
  · rw [splitRow_zero A rows h0]
    simp only
    rw [if_neg (by rw [vecList_sum, vecList_sum, hsum]; simp),
      if_pos (Or.inr (Or.inr (by rw [vecList_sum, h0]))),
      permSpec_of_sum_zero A rows cols h0 (hsum ▸ h0)]
  · obtain ⟨k, hk, hsplit⟩ := splitRow_pos A rows h0
    rw [hsplit]
    simp only
    have hdec := sum_decRow rows k hk
    have hrs : (1 :: vecList (decRow rows k)).sum = ∑ i, rows i := by
      rw [List.sum_cons, vecList_sum, hdec]
    have hn : n ≠ 0 := by
      rintro rfl
      exact h0 (by simp)
    have hm : m ≠ 0 := by
      rintro rfl
      apply h0
      rw [hsum]; simp
    rw [if_neg (by rw [hrs, vecList_sum, hsum]; simp), if_neg (by
      rw [hrs, vecList_length, List.length_cons, matList_length]
      omega), if_neg (by rw [List.length_cons, matList_length]; omega)]
    congr 1
    rw [List.drop_one, List.tail_cons, hrs, ← hdec, Nat.add_sub_cancel_left, powK_eq]
    have hglynn := Pq.Glynn.glynn_mult_gen (R := K) (decRow rows k) cols (by rw [hdec, hsum]) (A k) A
    rw [sum_unsplit rows k cols hk A] at hglynn
    rw [gray_sum (decRow rows k) _ _ (fun o g hg => term_fin (A k) A (decRow rows k) cols _ o g hg),
      ← hglynn]
    unfold permSpec
    rw [mul_div_assoc, mul_comm, div_mul_cancel₀]
    exact pow_ne_zero _ two_ne_zero

omit [CharZero K] in
/-- and it refuses mismatching totals -/
theorem permanent_none_of_ne {n m : Nat} (A : Fin n → Fin m → K) (rows : Fin n → Nat)
    (cols : Fin m → Nat) (threads : Nat) (hsum : ∑ i, rows i ≠ ∑ j, cols j) :
    permanent false threads (matList A) (vecList rows) (vecList cols) = none := by
  have key : (splitRow (matList A) (vecList rows)).2.sum ≠ (vecList cols).sum := by
    by_cases h0 : ∑ i, rows i = 0
    · rw [splitRow_zero A rows h0]
      simpa [vecList_sum] using hsum
    · obtain ⟨k, hk, hsplit⟩ := splitRow_pos A rows h0
      rw [hsplit]
      simp only [List.sum_cons, vecList_sum, sum_decRow rows k hk]
      exact hsum
  unfold permanent
  revert key
  generalize splitRow (matList A) (vecList rows) = p
  obtain ⟨A', rows'⟩ := p
  intro key
  simp only at key ⊢
  rw [if_pos key]

end Pq.Kernel
