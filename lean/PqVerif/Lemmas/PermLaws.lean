import Mathlib.Tactic
import Mathlib.Algebra.Field.Basic
import Mathlib.Algebra.BigOperators.Group.List.Basic
import PqVerif.Lemmas.GrayLaws

/-!
C11 / C04: the value computed by the native permanent kernel (model `Pq.Kernel.permanent`) does not
depend on how the Gray-code range is partitioned into jobs, i.e. on `hardware_concurrency()`.

Route: `jobStep_init` is the loop invariant of one job (counter, column sums, binomial weight and
sign after `next()` are exactly those `initialize(o + 1)` would give: `colsumOf_set`, `binomInit_set`,
`par_set`, `gray_succ`), `jobFold` iterates it, `jobs_total` glues the jobs with `jobRanges_partition`,
`permanent_eq` is the resulting closed form for every thread count `≥ 1`.  The shape hypotheses of
the stated theorems turn out not to be needed (the model truncates consistently on ragged input).
-/
namespace Pq.Kernel

variable {K : Type} [Field K]

/-- the summand of the BBFG formula at Gray-code offset `o`, computed directly (no incremental state) -/
def term (A : List (List K)) (mults cols limits : List Nat) (o : Nat) : K :=
  let g := grayOf limits o
  colsumProd (if g.sum % 2 = 0 then 1 else -1) (colsumOf A mults g) cols *
    ((binomInit false mults g : Int) : K)

/-- shape conditions the C++ code assumes: one more row than multiplicities, all rows as long as `cols` -/
def Shaped (A : List (List K)) (mults cols : List Nat) : Prop :=
  A.length = mults.length + 1 ∧ ∀ r ∈ A, r.length = cols.length

/-! ### column sums -/

/-- add a function of the row entry to every column sum -/
def addRow (h : K → K) (r cs : List K) : List K := (cs.zip r).map (fun p => p.1 + h p.2)

theorem addRow_comm (h1 h2 : K → K) (r1 r2 cs : List K) :
    addRow h1 r1 (addRow h2 r2 cs) = addRow h2 r2 (addRow h1 r1 cs) := by
  induction cs generalizing r1 r2 with
  | nil => simp [addRow]
  | cons c cs ih =>
    cases r1 with
    | nil => simp [addRow]
    | cons a r1 =>
      cases r2 with
      | nil => simp [addRow]
      | cons b r2 =>
        have := ih r1 r2
        simp only [addRow, List.zip_cons_cons, List.map_cons, List.cons.injEq] at this ⊢
        exact ⟨by ring, this⟩

/-- one step of the fold defining `colsumOf` -/
def colStep (A : List (List K)) (cs : List K) (x : (Nat × Nat) × Nat) : List K :=
  (cs.zip (rowAt A (x.2 + 1))).map
    (fun p => p.1 + p.2 * ((((x.1.1 : Nat) : Int) - 2 * ((x.1.2 : Nat) : Int) : Int) : K))

theorem colsumOf_eq (A : List (List K)) (mults g : List Nat) :
    colsumOf A mults g = ((mults.zip g).zipIdx).foldl (colStep A) (rowAt A 0) := rfl

theorem colStep_eq_addRow (A : List (List K)) (cs : List K) (x : (Nat × Nat) × Nat) :
    colStep A cs x = addRow (fun a => a * ((((x.1.1 : Nat) : Int) - 2 * ((x.1.2 : Nat) : Int) : Int) : K))
      (rowAt A (x.2 + 1)) cs := rfl

theorem colFold_addRow (A : List (List K)) (h : K → K) (r : List K)
    (l : List ((Nat × Nat) × Nat)) (cs : List K) :
    l.foldl (colStep A) (addRow h r cs) = addRow h r (l.foldl (colStep A) cs) := by
  induction l generalizing cs with
  | nil => rfl
  | cons x l ih =>
    simp only [List.foldl_cons]
    rw [← ih]
    congr 1
    rw [colStep_eq_addRow, colStep_eq_addRow, addRow_comm]

theorem colStep_change (A : List (List K)) (cs : List K) (m p v k : Nat) :
    colStep A cs ((m, v), k) =
      addRow (fun a => 2 * a * ((((p : Nat) : Int) - (v : Int) : Int) : K)) (rowAt A (k + 1))
        (colStep A cs ((m, p), k)) := by
  simp only [colStep]
  generalize rowAt A (k + 1) = r
  induction cs generalizing r with
  | nil => simp [addRow]
  | cons c cs ih =>
    cases r with
    | nil => simp [addRow]
    | cons a r =>
      have := ih r
      simp only [addRow, List.zip_cons_cons, List.map_cons, List.cons.injEq] at this ⊢
      refine ⟨?_, this⟩
      push_cast
      ring

theorem colFold_set (A : List (List K)) (ms gs : List Nat) (k i v : Nat) (cs : List K)
    (hi : i < ms.length) (hi' : i < gs.length) :
    ((ms.zip (gs.set i v)).zipIdx k).foldl (colStep A) cs =
      addRow (fun a => 2 * a * ((((gs.getD i 0 : Nat) : Int) - (v : Int) : Int) : K))
        (rowAt A (k + i + 1)) (((ms.zip gs).zipIdx k).foldl (colStep A) cs) := by
  induction ms generalizing gs k i cs with
  | nil => simp at hi
  | cons m ms ih =>
    cases gs with
    | nil => simp at hi'
    | cons p gs =>
      cases i with
      | zero =>
        simp only [List.set_cons_zero, List.zip_cons_cons, List.zipIdx_cons, List.foldl_cons,
          List.getD_cons_zero, Nat.add_zero]
        rw [← colFold_addRow]
        congr 1
        exact colStep_change A cs m p v k
      | succ i =>
        simp only [List.set_cons_succ, List.zip_cons_cons, List.zipIdx_cons, List.foldl_cons,
          List.getD_cons_succ]
        rw [ih gs (k + 1) i _ (by simpa using hi) (by simpa using hi')]
        have : k + 1 + i + 1 = k + (i + 1) + 1 := by omega
        rw [this]

/-- moving one gray digit changes the column sums exactly as the incremental update does -/
theorem colsumOf_set (A : List (List K)) (mults g : List Nat) (i v : Nat)
    (hi : i < mults.length) (hi' : i < g.length) :
    colsumOf A mults (g.set i v) =
      ((colsumOf A mults g).zip (rowAt A (i + 1))).map
        (fun (s, a) => s + (2 : K) * a * (((((g.getD i 0 : Nat) : Int) - (v : Int)) : Int) : K)) := by
  rw [colsumOf_eq, colsumOf_eq, colFold_set A mults g 0 i v _ hi hi', Nat.zero_add]
  rfl

/-! ### parity -/

theorem sum_set (g : List Nat) (i v : Nat) (hi : i < g.length) :
    (g.set i v).sum + g.getD i 0 = g.sum + v := by
  induction g generalizing i with
  | nil => simp at hi
  | cons a g ih =>
    cases i with
    | zero => simp; omega
    | succ i =>
      have := ih i (by simpa using hi)
      simp only [List.set_cons_succ, List.sum_cons, List.getD_cons_succ]
      omega

theorem set_getD_self (g : List Nat) (i : Nat) : g.set i (g.getD i 0) = g := by
  induction g generalizing i with
  | nil => rfl
  | cons a g ih =>
    cases i with
    | zero => simp
    | succ i => simp only [List.getD_cons_succ, List.set_cons_succ, ih i]

/-- the sign of a gray code -/
def par (g : List Nat) : Int := if g.sum % 2 = 0 then 1 else -1

theorem par_set (g : List Nat) (i v : Nat) (hi : i < g.length)
    (hadj : v = g.getD i 0 + 1 ∨ v + 1 = g.getD i 0) : par (g.set i v) = - par g := by
  have := sum_set g i v hi
  unfold par
  split <;> split <;> first | rfl | omega

/-! ### binomial weights -/

def binProd (init : Int) (ms gs : List Nat) : Int :=
  (ms.zip gs).foldl (fun acc p => acc * (binomialCoeff p.1 p.2 : Int)) init

theorem binomInit_false (ms gs : List Nat) : binomInit false ms gs = binProd 1 ms gs := rfl

theorem binProd_init (a : Int) (ms gs : List Nat) : binProd a ms gs = a * binProd 1 ms gs := by
  induction ms generalizing a gs with
  | nil => simp [binProd]
  | cons m ms ih =>
    cases gs with
    | nil => simp [binProd]
    | cons g gs =>
      have h1 := ih (a * (binomialCoeff m g : Int)) gs
      have h2 := ih (1 * (binomialCoeff m g : Int)) gs
      simp only [binProd, List.zip_cons_cons, List.foldl_cons] at h1 h2 ⊢
      rw [h1, h2]
      ring

theorem binProd_cons (m g : Nat) (ms gs : List Nat) :
    binProd 1 (m :: ms) (g :: gs) = (Nat.choose m g : Int) * binProd 1 ms gs := by
  have := binProd_init (1 * (binomialCoeff m g : Int)) ms gs
  simp only [binProd, List.zip_cons_cons, List.foldl_cons] at this ⊢
  rw [this, binomialCoeff_eq_choose, one_mul]

theorem binProd_set (ms gs : List Nat) (i : Nat) (hi : i < ms.length) (hi' : i < gs.length) :
    ∃ rest : Int, ∀ v, binProd 1 ms (gs.set i v) = rest * (Nat.choose (ms.getD i 0) v : Int) := by
  induction ms generalizing gs i with
  | nil => simp at hi
  | cons m ms ih =>
    cases gs with
    | nil => simp at hi'
    | cons p gs =>
      cases i with
      | zero =>
        refine ⟨binProd 1 ms gs, fun v => ?_⟩
        simp only [List.set_cons_zero, List.getD_cons_zero, binProd_cons]
        ring
      | succ i =>
        obtain ⟨rest, hr⟩ := ih gs i (by simpa using hi) (by simpa using hi')
        refine ⟨(Nat.choose m p : Int) * rest, fun v => ?_⟩
        simp only [List.set_cons_succ, List.getD_cons_succ, binProd_cons, hr v]
        ring

/-- the incremental weight update is exact -/
theorem binomInit_set (ms gs : List Nat) (i v : Nat) (hi : i < ms.length) (hi' : i < gs.length)
    (hp : gs.getD i 0 ≤ ms.getD i 0) (hv : v ≤ ms.getD i 0)
    (hadj : v = gs.getD i 0 + 1 ∨ v + 1 = gs.getD i 0) :
    binomUpdate false (binomInit false ms gs) (ms.getD i 0) (gs.getD i 0) v =
      binomInit false ms (gs.set i v) := by
  obtain ⟨rest, hr⟩ := binProd_set ms gs i hi hi'
  have h1 := hr (gs.getD i 0)
  rw [set_getD_self] at h1
  rw [binomInit_false, binomInit_false, h1, hr v]
  exact binomUpdate_exact rest _ _ _ hp hv hadj

/-! ### the counter -/

theorem total_pos (ns : List Nat) (hpos : ∀ n ∈ ns, 0 < n) : 0 < total ns := by
  induction ns with
  | nil => simp [total_nil]
  | cons n ns ih =>
    rw [total_cons]
    exact Nat.mul_pos (hpos n (by simp)) (ih (fun m hm => hpos m (by simp [hm])))

theorem limits_pos (mults : List Nat) : ∀ n ∈ mults.map (· + 1), 0 < n := by
  intro n hn
  simp only [List.mem_map] at hn
  obtain ⟨m, _, rfl⟩ := hn
  omega

theorem getD_limits (mults : List Nat) (i : Nat) (hi : i < mults.length) :
    (mults.map (· + 1)).getD i 0 = mults.getD i 0 + 1 := by
  simp [List.getD_eq_getElem?_getD, List.getElem?_map, List.getElem?_eq_getElem hi]

/-- `next()` from the state `initialize(o)`: the whole result, the changed digit and its move -/
theorem gray_succ (limits : List Nat) (hpos : ∀ n ∈ limits, 0 < n) (o : Nat)
    (h : o + 1 < total limits) :
    ∃ idx, idx < limits.length ∧
      (Counter.init limits o).next = (Counter.init limits (o + 1), idx,
        (grayOf limits o).getD idx 0, (grayOf limits (o + 1)).getD idx 0) ∧
      grayOf limits (o + 1) = (grayOf limits o).set idx ((grayOf limits (o + 1)).getD idx 0) ∧
      ((grayOf limits (o + 1)).getD idx 0 = (grayOf limits o).getD idx 0 + 1 ∨
        (grayOf limits (o + 1)).getD idx 0 + 1 = (grayOf limits o).getD idx 0) := by
  obtain ⟨i, hi, hd, hs⟩ := gray_adjacent limits hpos o h
  have hn := next_eq_init limits hpos o h
  simp only [] at hn
  obtain ⟨e1, e2, e3, e4⟩ := hn
  have hidx : (Counter.init limits o).next.2.1 = i := by
    by_contra hne
    exact e4 (hs _ hne).symm
  rw [hidx] at e2 e3
  have hl : (grayOf limits o).length = (grayOf limits (o + 1)).length := by
    rw [(grayOf_lt limits hpos o).1, (grayOf_lt limits hpos (o + 1)).1]
  have hne : (grayOf limits o).getD i 0 ≠ (grayOf limits (o + 1)).getD i 0 := by omega
  obtain ⟨_, h2⟩ := lastDiff_single _ _ hl i (by rw [(grayOf_lt limits hpos o).1]; exact hi) hne hs
  refine ⟨i, hi, ?_, h2.symm, hd⟩
  rw [← e1, ← e2, ← e3, ← hidx]

/-! ### one job -/

/-- the loop body of `runJob` (exact integer weights) -/
def jobStep (A : List (List K)) (mults cols : List Nat)
    (st : Counter × List K × Int × Int × K) (_ : Nat) : Counter × List K × Int × Int × K :=
  let (c, colsum, coeff, parity, acc) := st
  let (c', idx, prev, value) := c.next
  let parity' := -parity
  let colsum' := (colsum.zip (rowAt A (idx + 1))).map
    (fun (s, a) => s + (2 : K) * a * ((((prev : Int) - (value : Int)) : Int) : K))
  let coeff' := binomUpdate false coeff (mults.getD idx 0) prev value
  (c', colsum', coeff', parity', acc + colsumProd parity' colsum' cols * ((coeff' : Int) : K))

theorem runJob_unfold (A : List (List K)) (mults cols limits : List Nat) (lo hi : Nat) :
    runJob false A mults cols limits lo hi =
      ((List.range (hi - lo)).foldl (jobStep A mults cols)
        (Counter.init limits lo, colsumOf A mults (grayOf limits lo),
          binomInit false mults (grayOf limits lo), par (grayOf limits lo),
          term A mults cols limits lo)).2.2.2.2 := rfl

/-- the loop invariant is preserved by one step -/
theorem jobStep_init (A : List (List K)) (mults cols : List Nat) (o n : Nat) (acc : K)
    (h : o + 1 < total (mults.map (· + 1))) :
    jobStep A mults cols
      (Counter.init (mults.map (· + 1)) o, colsumOf A mults (grayOf (mults.map (· + 1)) o),
        binomInit false mults (grayOf (mults.map (· + 1)) o), par (grayOf (mults.map (· + 1)) o), acc) n =
      (Counter.init (mults.map (· + 1)) (o + 1), colsumOf A mults (grayOf (mults.map (· + 1)) (o + 1)),
        binomInit false mults (grayOf (mults.map (· + 1)) (o + 1)),
        par (grayOf (mults.map (· + 1)) (o + 1)),
        acc + term A mults cols (mults.map (· + 1)) (o + 1)) := by
  set limits := mults.map (· + 1) with hlim
  have hpos := limits_pos mults
  rw [← hlim] at hpos
  obtain ⟨idx, hidx, hnext, hset, hadj⟩ := gray_succ limits hpos o h
  have hidx' : idx < mults.length := by simpa [hlim] using hidx
  obtain ⟨hlen, hlt⟩ := grayOf_lt limits hpos o
  obtain ⟨_, hlt'⟩ := grayOf_lt limits hpos (o + 1)
  have hig : idx < (grayOf limits o).length := by rw [hlen]; exact hidx
  have hm : limits.getD idx 0 = mults.getD idx 0 + 1 := getD_limits mults idx hidx'
  have hp := hlt idx hidx
  have hv := hlt' idx hidx
  rw [hm] at hp hv
  set g := grayOf limits o with hg
  set g' := grayOf limits (o + 1) with hg'
  set v := g'.getD idx 0 with hvdef
  have hcol := colsumOf_set A mults g idx v hidx' hig
  have hco := binomInit_set mults g idx v hidx' hig (by omega) (by omega) (by omega)
  have hpar := par_set g idx v hig (by omega)
  rw [← hset] at hcol hco hpar
  simp only [jobStep, hnext]
  rw [← hcol, hco, ← hpar]
  rfl

theorem jobFold (A : List (List K)) (mults cols : List Nat) (lo t : Nat)
    (h : lo + t < total (mults.map (· + 1))) :
    (List.range t).foldl (jobStep A mults cols)
      (Counter.init (mults.map (· + 1)) lo, colsumOf A mults (grayOf (mults.map (· + 1)) lo),
        binomInit false mults (grayOf (mults.map (· + 1)) lo), par (grayOf (mults.map (· + 1)) lo),
        term A mults cols (mults.map (· + 1)) lo) =
      (Counter.init (mults.map (· + 1)) (lo + t),
        colsumOf A mults (grayOf (mults.map (· + 1)) (lo + t)),
        binomInit false mults (grayOf (mults.map (· + 1)) (lo + t)),
        par (grayOf (mults.map (· + 1)) (lo + t)),
        ((List.range' lo (t + 1)).map (term A mults cols (mults.map (· + 1)))).sum) := by
  induction t with
  | zero => simp
  | succ t ih =>
    rw [List.range_succ, List.foldl_append, ih (by omega)]
    simp only [List.foldl_cons, List.foldl_nil]
    rw [jobStep_init A mults cols (lo + t) t _ (by omega)]
    rw [List.range'_concat (s := lo) (n := t + 1), List.map_append, List.sum_append]
    simp [Nat.add_assoc]

/-- `runJob_eq_sum` without the (unneeded) shape hypothesis -/
theorem runJob_eq_sum' (A : List (List K)) (mults cols : List Nat) (lo hi : Nat)
    (hlo : lo ≤ hi) (hhi : hi < total (mults.map (· + 1))) :
    runJob false A mults cols (mults.map (· + 1)) lo hi =
      ((List.range' lo (hi + 1 - lo)).map (term A mults cols (mults.map (· + 1)))).sum := by
  rw [runJob_unfold, jobFold A mults cols lo (hi - lo) (by omega)]
  have : hi - lo + 1 = hi + 1 - lo := by omega
  rw [this]

/-! ### all jobs -/

theorem foldl_add_eq (l : List (Nat × Nat)) (f : Nat × Nat → K) (a : K) :
    l.foldl (fun acc r => acc + f r) a = a + (l.map f).sum := by
  induction l generalizing a with
  | nil => simp
  | cons x l ih =>
    simp only [List.foldl_cons, List.map_cons, List.sum_cons, ih]
    ring

theorem sum_jobs (T : Nat → K) (l : List (Nat × Nat)) :
    (l.map (fun r => ((List.range' r.1 (r.2 + 1 - r.1)).map T).sum)).sum =
      ((l.flatMap (fun r => List.range' r.1 (r.2 + 1 - r.1))).map T).sum := by
  induction l with
  | nil => simp
  | cons x l ih =>
    simp only [List.map_cons, List.sum_cons, List.flatMap_cons, List.map_append, List.sum_append, ih]

/-- the partial sums of all jobs add up to the sum over the whole Gray-code range -/
theorem jobs_total (A : List (List K)) (mults cols : List Nat) (threads : Nat) (ht : 0 < threads) :
    (jobRanges (total (mults.map (· + 1))) threads).foldl
      (fun acc (lo, hi) => acc + runJob false A mults cols (mults.map (· + 1)) lo hi) (0 : K) =
      ((List.range (total (mults.map (· + 1)))).map (term A mults cols (mults.map (· + 1)))).sum := by
  have hT := total_pos _ (limits_pos mults)
  have hne := jobRanges_nonempty_ranges _ threads hT ht
  refine (foldl_add_eq _ (fun r => runJob false A mults cols (mults.map (· + 1)) r.1 r.2) 0).trans ?_
  rw [zero_add, List.map_congr_left (fun r hr =>
    runJob_eq_sum' A mults cols r.1 r.2 (hne r hr).1 (hne r hr).2), sum_jobs,
    jobRanges_partition _ _ hT ht]

/-- closed form of the kernel for every thread count `≥ 1` -/
theorem permanent_eq (A : List (List K)) (rows cols : List Nat) (t : Nat) (ht : 0 < t) :
    permanent false t A rows cols =
      (let (A', rows') := splitRow A rows
       if rows'.sum ≠ cols.sum then none
       else if A'.length = 0 ∨ cols.length = 0 ∨ rows'.sum = 0 then some 1
       else if A'.length = 1 then some (colsumProd 1 (rowAt A' 0) cols)
       else
         let mults := rows'.drop 1
         let limits := mults.map (· + 1)
         some (((List.range (total limits)).map (term A' mults cols limits)).sum
                / powK (2 : K) (rows'.sum - 1))) := by
  unfold permanent
  generalize splitRow A rows = p
  obtain ⟨A', rows'⟩ := p
  simp only []
  split_ifs <;> try rfl
  congr 2
  exact jobs_total A' (rows'.drop 1) cols t ht

/-- one job computes exactly the sum of the direct summands over its range: the incremental column
sums, the sign flips and the incremental binomial weights are exact -/
theorem runJob_eq_sum (A : List (List K)) (mults cols : List Nat) (lo hi : Nat)
    (hA : Shaped A mults cols) (hlo : lo ≤ hi) (hhi : hi < total (mults.map (· + 1))) :
    runJob false A mults cols (mults.map (· + 1)) lo hi =
      ((List.range' lo (hi + 1 - lo)).map (term A mults cols (mults.map (· + 1)))).sum :=
  have _ := hA
  runJob_eq_sum' A mults cols lo hi hlo hhi

/-- **partition independence**: for every two values `t₁, t₂ ≥ 1` the concurrency query could return,
the kernel computes the same number (in exact arithmetic; floating-point reassociation of the
per-job partial sums is the only residue in the real code) -/
theorem permanent_threads_independent (A : List (List K)) (rows cols : List Nat)
    (t₁ t₂ : Nat) (h₁ : 0 < t₁) (h₂ : 0 < t₂)
    (hA : A.length = rows.length ∧ ∀ r ∈ A, r.length = cols.length) :
    permanent false t₁ A rows cols = permanent false t₂ A rows cols := by
  have _ := hA
  rw [permanent_eq A rows cols t₁ h₁, permanent_eq A rows cols t₂ h₂]

/-- and with a single job it is the plain sum over all Gray codes -/
theorem permanent_one_thread_sum (A : List (List K)) (rows cols : List Nat)
    (hA : A.length = rows.length ∧ ∀ r ∈ A, r.length = cols.length) :
    permanent false 1 A rows cols =
      (let (A', rows') := splitRow A rows
       if rows'.sum ≠ cols.sum then none
       else if A'.length = 0 ∨ cols.length = 0 ∨ rows'.sum = 0 then some 1
       else if A'.length = 1 then some (colsumProd 1 (rowAt A' 0) cols)
       else
         let mults := rows'.drop 1
         let limits := mults.map (· + 1)
         some (((List.range (total limits)).map (term A' mults cols limits)).sum
                / powK (2 : K) (rows'.sum - 1))) :=
  have _ := hA
  permanent_eq A rows cols 1 Nat.one_pos

/-- latent defect (recorded finding): with `hardware_concurrency() = 0` no job runs and the
kernel returns 0 whatever the matrix -/
theorem permanent_zero_threads (A : List (List K)) (rows cols : List Nat)
    (h : (splitRow A rows).2.sum = cols.sum) (h2 : 1 < (splitRow A rows).1.length)
    (h3 : cols.length ≠ 0) (h4 : (splitRow A rows).2.sum ≠ 0) :
    permanent false 0 A rows cols = some 0 := by
  unfold permanent
  revert h h2 h4
  generalize splitRow A rows = p
  obtain ⟨A', rows'⟩ := p
  intro h h2 h4
  simp only [] at h h2 h4 ⊢
  rw [if_neg (by simp [h]), if_neg (by omega), if_neg (by omega), jobRanges_zero_threads]
  simp

end Pq.Kernel
