import Mathlib.Tactic
import PqVerif.Model.GaussRep

/-! C14 lemmas: setters and getters are mutually inverse, scaling with hbar, reduction and
rotation commute with the representations. -/
namespace Pq.GaussRep
open Matrix

variable {F : Type} [Field F] [CharZero F] {d k : Nat}

-- `[CharZero F]` is only needed by the lemmas dividing by 2 or 4
set_option linter.unusedSectionVars false

theorem get_set_cov (ħ : F) (h : ħ ≠ 0) (cov : Matrix (Fin d ⊕ Fin d) (Fin d ⊕ Fin d) F)
    (s : Rep F d) : xxppCov ħ (setXxppCov ħ cov s) = cov := by
  ext i j
  rcases i with i | i <;> rcases j with j | j <;>
    simp only [xxppCov, setXxppCov, Matrix.smul_apply, Matrix.add_apply, Matrix.sub_apply,
      Matrix.neg_apply, Matrix.fromBlocks_apply₁₁, Matrix.fromBlocks_apply₁₂,
      Matrix.fromBlocks_apply₂₁, Matrix.fromBlocks_apply₂₂, Matrix.toBlocks₁₁, Matrix.toBlocks₁₂,
      Matrix.toBlocks₂₁, Matrix.toBlocks₂₂, Matrix.of_apply, smul_eq_mul] <;>
    field_simp <;> ring

theorem set_get_cov (ħ : F) (h : ħ ≠ 0) (s : Rep F d) : setXxppCov ħ (xxppCov ħ s) s = s := by
  have h4 : (4 : F) ≠ 0 := by norm_num
  cases s
  simp only [setXxppCov, xxppCov, Rep.mk.injEq, true_and]
  refine ⟨?_, ?_, ?_, ?_⟩ <;> ext i j <;>
    simp only [Matrix.smul_apply, Matrix.add_apply, Matrix.sub_apply,
      Matrix.neg_apply, Matrix.fromBlocks_apply₁₁, Matrix.fromBlocks_apply₁₂,
      Matrix.fromBlocks_apply₂₁, Matrix.fromBlocks_apply₂₂, Matrix.toBlocks₁₁, Matrix.toBlocks₁₂,
      Matrix.toBlocks₂₁, Matrix.toBlocks₂₂, Matrix.of_apply, smul_eq_mul] <;>
    field_simp <;> ring

theorem get_set_mean (r : F) (h : r ≠ 0) (v : Fin d ⊕ Fin d → F) (s : Rep F d) :
    xxppMean r (setXxppMean r v s) = v := by
  funext i
  rcases i with i | i <;> simp only [xxppMean, setXxppMean, Sum.elim_inl, Sum.elim_inr] <;>
    field_simp

theorem set_get_mean (r : F) (h : r ≠ 0) (s : Rep F d) : setXxppMean r (xxppMean r s) s = s := by
  cases s
  simp only [setXxppMean, xxppMean, Rep.mk.injEq, and_true, Sum.elim_inl, Sum.elim_inr]
  constructor <;> funext i <;> field_simp

/-- covariances scale with `hbar` -/
theorem cov_scaling (ħ : F) (s : Rep F d) : xxppCov ħ s = ħ • xxppCov 1 s := by
  simp only [xxppCov, one_smul]

/-- means scale with `sqrt(hbar)`: `r = sqrt(2ħ) = sqrt ħ * sqrt 2` -/
theorem mean_scaling (rh r2 : F) (s : Rep F d) :
    xxppMean (rh * r2) s = fun i => rh * xxppMean r2 s i := by
  funext i
  simp only [xxppMean, mul_assoc]

/-- the dimensionless covariance `cov / hbar` every dimensionless observable is computed from
does not depend on `hbar` -/
theorem normalised_cov_hbar_free (ħ₁ ħ₂ : F) (h1 : ħ₁ ≠ 0) (h2 : ħ₂ ≠ 0) (s : Rep F d) :
    ħ₁⁻¹ • xxppCov ħ₁ s = ħ₂⁻¹ • xxppCov ħ₂ s := by
  simp only [xxppCov, smul_smul, inv_mul_cancel₀ h1, inv_mul_cancel₀ h2]

/-- reduction commutes with the covariance representation -/
theorem reduced_cov (ħ : F) (modes : Fin k → Fin d) (hinj : Function.Injective modes) (s : Rep F d) :
    xxppCov ħ (reduced modes s) = (xxppCov ħ s).submatrix (Sum.map modes modes) (Sum.map modes modes) := by
  ext i j
  rcases i with i | i <;> rcases j with j | j <;>
    simp [xxppCov, reduced, Matrix.one_apply, hinj.eq_iff, mul_add]

theorem reduced_mean (r : F) (modes : Fin k → Fin d) (s : Rep F d) :
    xxppMean r (reduced modes s) = xxppMean r s ∘ Sum.map modes modes := by
  funext i
  rcases i with i | i <;> simp [xxppMean, reduced]

/-- rotation commutes with the representations: the covariance of the rotated state is the
rotated covariance, the mean the rotated mean (`c² + sn² = 1`) -/
theorem rotated_cov (ħ c sn : F) (hcs : c * c + sn * sn = 1) (s : Rep F d) :
    xxppCov ħ (rotated c sn s) = rotMat c sn * xxppCov ħ s * (rotMat c sn)ᵀ := by
  unfold xxppCov rotated rotMat
  rw [← fromBlocks_one]
  simp only [fromBlocks_smul, fromBlocks_add, fromBlocks_multiply, fromBlocks_transpose,
    transpose_smul, transpose_one, smul_mul_assoc, mul_smul_comm, one_mul, mul_one,
    add_zero]
  ext i j
  rcases i with i | i <;> rcases j with j | j <;>
    simp only [Matrix.smul_apply, Matrix.add_apply, Matrix.sub_apply,
      Matrix.neg_apply, Matrix.fromBlocks_apply₁₁, Matrix.fromBlocks_apply₁₂,
      Matrix.fromBlocks_apply₂₁, Matrix.fromBlocks_apply₂₂, smul_eq_mul, neg_smul]
  · linear_combination (-ħ * (2 * s.Cr i j + (1 : Matrix (Fin d) (Fin d) F) i j)) * hcs
  · linear_combination (-2 * ħ * s.Ci i j) * hcs
  · linear_combination (2 * ħ * s.Ci i j) * hcs
  · linear_combination (-ħ * (2 * s.Cr i j + (1 : Matrix (Fin d) (Fin d) F) i j)) * hcs

theorem rotated_mean (r c sn : F) (s : Rep F d) :
    xxppMean r (rotated c sn s) = (rotMat c sn).mulVec (xxppMean r s) := by
  funext i
  rcases i with i | i <;>
    simp [xxppMean, rotated, rotMat, Matrix.mulVec, dotProduct, Fintype.sum_sum_type,
      Matrix.one_apply] <;> ring

/-- the complex covariance is the same data: its real and imaginary parts determine and are
determined by `(C, G)` -/
theorem complexCov_injective (s t : Rep F d) (hre : complexCovRe s = complexCovRe t)
    (him : complexCovIm s = complexCovIm t) :
    s.Cr = t.Cr ∧ s.Ci = t.Ci ∧ s.Gr = t.Gr ∧ s.Gi = t.Gi := by
  have h2 : (2 : F) ≠ 0 := by norm_num
  simp only [complexCovRe, complexCovIm] at hre him
  have hre' := smul_right_injective _ h2 (add_right_cancel hre)
  have him' := smul_right_injective _ h2 him
  rw [Matrix.fromBlocks_inj] at hre' him'
  exact ⟨hre'.1, him'.2.2.2, hre'.2.1, him'.2.1⟩

/-- the two index permutations are mutually inverse on `0 … 2d-1` -/
theorem xpxp_xxpp_inverse (d t : Nat) (h : t < 2 * d) :
    xpxpToXxpp d (xxppToXpxp d t) = t ∧ xxppToXpxp d (xpxpToXxpp d t) = t ∧
    xxppToXpxp d t < 2 * d ∧ xpxpToXxpp d t < 2 * d := by
  unfold xpxpToXxpp xxppToXpxp
  refine ⟨?_, ?_, ?_, ?_⟩ <;> split_ifs <;> omega

end Pq.GaussRep
