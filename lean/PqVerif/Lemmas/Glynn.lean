import Mathlib.Tactic
import Mathlib.LinearAlgebra.Matrix.Permanent
import Mathlib.Algebra.BigOperators.Ring.Finset
import Mathlib.Algebra.BigOperators.Ring.Nat
import Mathlib.Algebra.BigOperators.Fin
import Mathlib.Data.Fintype.Pi
import Mathlib.Data.Fintype.BigOperators
import Mathlib.Data.Finset.Powerset
import Mathlib.Logic.Equiv.Option

/-!
Glynn's formula (balanced Gray-code / BBFG form) for the permanent of a square matrix over a
commutative ring, and its version with row and column multiplicities — the mathematical content of
`permanent_cpp` (src/permanent.cpp), cf. Eq. (8) of arXiv:2309.07027.

Contents
* `glynn_gen`  : rows `Option ι`, columns `κ` with `|κ| = |ι| + 1`, the permanent written as a sum
                 over bijections `κ ≃ Option ι`;
* `glynn'`     : square matrix indexed by `Option ι` (`Matrix.permanent`);
* `glynn`      : square matrix indexed by `Fin (N + 1)` (`Matrix.permanent`);
* `glynn_mult_gen`, `glynn_mult_reindex`, `glynn_mult` : the version with multiplicities.

Proof of `glynn_gen`: expand `∏ j, ∑ k, δ k * B k j` into a sum over all maps `f : κ → Option ι`
and exchange the sums. The coefficient of `∏ j, B (f j) j` is the character sum
`∑ δ, ∏ k, δ k ^ (1 + |f⁻¹ k|) = ∏ k : ι, ((-1) ^ (1 + |f⁻¹ (some k)|) + 1)`, which vanishes unless
every fibre over `some k` is odd; by counting and parity this forces `f` to be bijective, and then
the coefficient is `2 ^ |ι|`.
-/
namespace Pq.Glynn
open Matrix BigOperators Finset

variable {R : Type} [CommRing R]

/-- the sign `-1` (for `true`) or `+1` (for `false`) -/
def sgn (b : Bool) : R := if b then -1 else 1

/-- sign vector on `Option ι` with `+1` at `none`, determined by `s : ι → Bool` -/
def deltaO {ι : Type} (s : ι → Bool) : Option ι → R
  | none => 1
  | some k => sgn (s k)

section General
variable {ι κ : Type} [Fintype ι] [DecidableEq ι] [Fintype κ]

/-- character sum over sign vectors -/
theorem sum_sgn_pow (e : ι → ℕ) :
    ∑ s : ι → Bool, ∏ k, (sgn (R := R) (s k)) ^ e k = ∏ k, ((-1) ^ e k + 1) := by
  rw [← Fintype.prod_sum (fun k (b : Bool) => (sgn (R := R) b) ^ e k)]
  simp [sgn]

/-- regrouping a product along the fibres of `f` -/
theorem prod_comp_fiber (d : Option ι → R) (f : κ → Option ι) :
    ∏ j, d (f j) = ∏ k, d k ^ #{j | f j = k} := by
  rw [← Finset.prod_fiberwise' univ f d]
  simp

/-- the coefficient of `∏ j, B (f j) j` as a product of character sums -/
theorem coeff_eq (f : κ → Option ι) :
    ∑ s : ι → Bool, (∏ k, deltaO (R := R) s k) * ∏ j, deltaO s (f j) =
      ∏ k : ι, ((-1) ^ (1 + #{j | f j = some k}) + 1) := by
  rw [← sum_sgn_pow]
  refine Finset.sum_congr rfl fun s _ => ?_
  rw [prod_comp_fiber (deltaO s) f, ← Finset.prod_mul_distrib, Fintype.prod_option]
  simp [deltaO, pow_succ, pow_add]

/-- counting + parity: if all fibres over `some k` are odd and `|κ| = |ι| + 1`, then `f` is a
bijection -/
theorem bijective_of_odd_fibers (hcard : Fintype.card κ = Fintype.card ι + 1)
    (f : κ → Option ι) (h : ∀ k : ι, Odd #{j | f j = some k}) : Function.Bijective f := by
  rw [Fintype.bijective_iff_surjective_and_card]
  refine ⟨?_, by simp [hcard]⟩
  have hsome : ∀ k : ι, ∃ j, f j = some k := by
    intro k
    have := (h k).pos
    obtain ⟨j, hj⟩ := Finset.card_pos.mp this
    exact ⟨j, by simpa using hj⟩
  rintro (_ | k)
  · by_contra hnone
    push Not at hnone
    have h1 : Fintype.card κ = ∑ o : Option ι, #{j | f j = o} := by
      rw [← Finset.card_univ]
      exact Finset.card_eq_sum_card_fiberwise (fun _ _ => Finset.mem_coe.mpr (Finset.mem_univ _))
    rw [Fintype.sum_option] at h1
    have h0 : #{j | f j = none} = 0 := by
      rw [Finset.card_eq_zero, Finset.filter_eq_empty_iff]
      intro j _; exact hnone j
    rw [h0, zero_add, hcard] at h1
    have h2 : Odd (∑ k : ι, #{j | f j = some k}) ↔ Odd (Fintype.card ι) := by
      rw [Finset.odd_sum_iff_odd_card_odd, Finset.filter_true_of_mem (fun k _ => h k),
        Finset.card_univ]
    rw [← h1, Nat.odd_add_one] at h2
    tauto
  · exact hsome k

/-- the coefficient is `2^|ι|` on bijections and `0` elsewhere -/
theorem coeff_eq_ite (hcard : Fintype.card κ = Fintype.card ι + 1) (f : κ → Option ι)
    [Decidable (Function.Bijective f)] :
    ∑ s : ι → Bool, (∏ k, deltaO (R := R) s k) * ∏ j, deltaO s (f j) =
      if Function.Bijective f then 2 ^ Fintype.card ι else 0 := by
  rw [coeff_eq]
  split_ifs with hf
  · have : ∀ k : ι, #{j | f j = some k} = 1 := by
      intro k
      rw [Finset.card_eq_one]
      obtain ⟨j, hj⟩ := hf.2 (some k)
      refine ⟨j, ?_⟩
      ext j'
      simp only [mem_filter, mem_univ, true_and, mem_singleton]
      constructor
      · intro h; exact hf.1 (h.trans hj.symm)
      · rintro rfl; exact hj
    simp only [this]
    norm_num
  · by_contra hne
    apply hf
    apply bijective_of_odd_fibers hcard
    intro k
    by_contra hk
    apply hne
    apply Finset.prod_eq_zero (Finset.mem_univ k)
    rw [Nat.not_odd_iff_even] at hk
    have : Odd (1 + #{j | f j = some k}) := by
      rw [add_comm]; exact hk.add_one
    rw [this.neg_one_pow]; ring

/-- a sum over bijective maps is a sum over equivalences -/
theorem sum_bijective_eq_sum_equiv [DecidableEq κ] (g : (κ → Option ι) → R) :
    (∑ f : κ → Option ι, if Function.Bijective f then g f else 0) =
      ∑ σ : κ ≃ Option ι, g σ := by
  rw [← Finset.sum_filter]
  symm
  refine Finset.sum_bij (fun σ _ => (σ : κ → Option ι)) ?_ ?_ ?_ ?_
  · intro σ _; simp
  · intro σ _ τ _ h; exact DFunLike.coe_injective h
  · intro f hf
    refine ⟨Equiv.ofBijective f (by simpa using hf), by simp, rfl⟩
  · intros; rfl

/-- Glynn for rows `Option ι` and columns `κ` -/
theorem glynn_gen [DecidableEq κ] (hcard : Fintype.card κ = Fintype.card ι + 1)
    (B : Option ι → κ → R) :
    (2 : R) ^ Fintype.card ι * ∑ σ : κ ≃ Option ι, ∏ j, B (σ j) j =
      ∑ s : ι → Bool, (∏ k, deltaO (R := R) s k) * ∏ j, ∑ k, deltaO s k * B k j := by
  classical
  symm
  calc ∑ s : ι → Bool, (∏ k, deltaO (R := R) s k) * ∏ j, ∑ k, deltaO s k * B k j
      = ∑ s : ι → Bool, ∑ f : κ → Option ι,
          ((∏ k, deltaO (R := R) s k) * ∏ j, deltaO s (f j)) * ∏ j, B (f j) j := by
        refine Finset.sum_congr rfl fun s _ => ?_
        rw [Fintype.prod_sum, Finset.mul_sum]
        refine Finset.sum_congr rfl fun f _ => ?_
        rw [Finset.prod_mul_distrib, mul_assoc]
    _ = ∑ f : κ → Option ι, (if Function.Bijective f then 2 ^ Fintype.card ι else 0) *
          ∏ j, B (f j) j := by
        rw [Finset.sum_comm]
        refine Finset.sum_congr rfl fun f _ => ?_
        rw [← Finset.sum_mul, coeff_eq_ite hcard]
    _ = (2 : R) ^ Fintype.card ι * ∑ σ : κ ≃ Option ι, ∏ j, B (σ j) j := by
        rw [← sum_bijective_eq_sum_equiv (fun f => ∏ j, B (f j) j), Finset.mul_sum]
        refine Finset.sum_congr rfl fun f _ => ?_
        split_ifs <;> simp


/-- the permanent of a matrix whose rows/columns are reindexed along equivalences is a sum over
equivalences (bijections from columns to rows) -/
theorem permanent_reindex_eq {ρ α β : Type} [Fintype ρ] [DecidableEq ρ] [Fintype α] [DecidableEq α]
    [Fintype β] [DecidableEq β] (er : ρ ≃ α) (ec : ρ ≃ β) (X : α → β → R) :
    (Matrix.of fun r c => X (er r) (ec c)).permanent = ∑ σ : β ≃ α, ∏ j, X (σ j) j := by
  unfold Matrix.permanent
  refine Fintype.sum_equiv (Equiv.equivCongr ec er) _ _ fun τ => ?_
  refine Fintype.prod_equiv ec _ _ fun c => ?_
  simp

/-- Glynn, square matrix indexed by `Option ι` -/
theorem glynn' (B : Matrix (Option ι) (Option ι) R) :
    (2 : R) ^ Fintype.card ι * B.permanent =
      ∑ s : ι → Bool, (∏ k, deltaO (R := R) s k) * ∏ j, ∑ k, deltaO s k * B k j :=
  glynn_gen (by simp) B

end General

/-- sign vectors `δ ∈ {+1, −1}^(N+1)` with `δ₀ = +1` are indexed by `s : Fin N → Bool`
(`true` = minus sign on row `k+1`) -/
def delta {N : Nat} (s : Fin N → Bool) : Fin (N + 1) → R :=
  Fin.cases 1 (fun k => if s k then -1 else 1)

/-- `delta` is `deltaO` transported along `finSuccEquiv` -/
theorem delta_eq {N : Nat} (s : Fin N → Bool) (k : Fin (N + 1)) :
    delta (R := R) s k = deltaO s (finSuccEquiv N k) := by
  refine Fin.cases ?_ (fun k => ?_) k <;> simp [delta, deltaO, sgn]

/-- **Glynn's formula**: `2^N · perm B = Σ_δ (Π_k δ_k) Π_j Σ_k δ_k B k j` for a square matrix of
size `N+1`, the sum ranging over the `2^N` sign vectors with `δ₀ = +1`. -/
theorem glynn {N : Nat} (B : Matrix (Fin (N + 1)) (Fin (N + 1)) R) :
    (2 : R) ^ N * B.permanent =
      ∑ s : Fin N → Bool, (∏ k, delta (R := R) s k) * ∏ j, ∑ k, delta s k * B k j := by
  have hp : B.permanent =
      ∑ σ : Fin (N + 1) ≃ Option (Fin N), ∏ j, B ((finSuccEquiv N).symm (σ j)) j := by
    rw [← permanent_reindex_eq (finSuccEquiv N) (Equiv.refl _)
      (fun o j => B ((finSuccEquiv N).symm o) j)]
    congr 1; ext r c; simp
  have h := glynn_gen (R := R) (ι := Fin N) (κ := Fin (N + 1)) (by simp)
    (fun o j => B ((finSuccEquiv N).symm o) j)
  rw [← hp, Fintype.card_fin] at h
  rw [h]
  refine Finset.sum_congr rfl fun s _ => ?_
  simp only [delta_eq]
  congr 1
  · exact (Fintype.prod_equiv (finSuccEquiv N) _ _ fun _ => rfl).symm
  · refine Finset.prod_congr rfl fun j _ => ?_
    exact (Fintype.sum_equiv (finSuccEquiv N) _ _ fun k => by simp).symm

/-! ## Part 2: rows and columns with multiplicities -/

section Mult

/-- product of signs = `(-1)^(number of minus signs)` -/
theorem prod_sgn {α : Type} [Fintype α] (t : α → Bool) :
    ∏ l, sgn (R := R) (t l) = (-1) ^ #{l | t l = true} := by
  simp [sgn, Finset.prod_ite]

/-- sum of signs = `(total) - 2 (number of minus signs)` -/
theorem sum_sgn {α : Type} [Fintype α] (t : α → Bool) :
    ∑ l, sgn (R := R) (t l) = (((Fintype.card α : ℤ) - 2 * (#{l | t l = true} : ℤ) : ℤ) : R) := by
  have : ∀ b : Bool, sgn (R := R) b = 1 - 2 * (if b = true then 1 else 0) := by
    intro b; cases b <;> simp [sgn]; ring
  simp only [this, Finset.sum_sub_distrib, ← Finset.mul_sum, Finset.sum_boole]
  simp

/-- number of `0/1` vectors of length `|α|` with exactly `g` ones -/
theorem card_bool_fun {α : Type} [Fintype α] [DecidableEq α] (g : ℕ) :
    #{t : α → Bool | #{l | t l = true} = g} = (Fintype.card α).choose g := by
  rw [← Finset.card_univ (α := α), ← Finset.card_powersetCard]
  refine Finset.card_nbij' (fun t => (univ.filter fun l => t l = true : Finset α))
    (fun S l => decide (l ∈ S)) ?_ ?_ ?_ ?_
  · intro t ht
    have ht' : #{l | t l = true} = g := by simpa using ht
    simp [Finset.mem_powersetCard, ht']
  · intro S hS
    have hS' : #S = g := by simpa [Finset.mem_powersetCard] using hS
    simp [hS']
  · intro t _; ext l; simp
  · intro S _; ext l; simp

/-- summing a function of the coordinatewise statistics `φ i (t i)` over a product type -/
theorem sum_comp_pi {ν : Type} [Fintype ν] [DecidableEq ν] {α : ν → Type} [∀ i, Fintype (α i)]
    [∀ i, DecidableEq (α i)]
    (φ : ∀ i, α i → ℕ) (T : ν → Finset ℕ) (hφ : ∀ i a, φ i a ∈ T i) (F : (ν → ℕ) → R) :
    ∑ t : ∀ i, α i, F (fun i => φ i (t i)) =
      ∑ g ∈ Fintype.piFinset T, (∏ i, (#{a | φ i a = g i} : R)) * F g := by
  rw [← Finset.sum_fiberwise_of_maps_to (g := fun (t : ∀ i, α i) i => φ i (t i))
    (t := Fintype.piFinset T) (by simp [hφ])]
  refine Finset.sum_congr rfl fun g _ => ?_
  have hfil : ({t : ∀ i, α i | (fun i => φ i (t i)) = g} : Finset _) =
      Fintype.piFinset fun i => ({a | φ i a = g i} : Finset (α i)) := by
    ext t; simp [funext_iff]
  rw [Finset.sum_congr rfl (g := fun _ => F g) (fun t ht => by rw [(Finset.mem_filter.mp ht).2]),
    Finset.sum_const, hfil, Fintype.card_piFinset, nsmul_eq_mul, Nat.cast_prod]

end Mult

section MultMain
variable {ν γ : Type} [Fintype ν] [DecidableEq ν] [Fintype γ] [DecidableEq γ]
  (μ : ν → ℕ) (c : γ → ℕ)

/-- the expanded matrix: row `none` is `a₀`, row `some ⟨i, l⟩` (`l < μ i`) is `A i`; column
`⟨j, l'⟩` (`l' < c j`) is a copy of column `j` -/
def expand (a₀ : γ → R) (A : ν → γ → R) : Option (Σ i, Fin (μ i)) → (Σ j, Fin (c j)) → R
  | none, j => a₀ j.1
  | some i, j => A i.1 j.1

omit [DecidableEq ν] [DecidableEq γ] in
/-- the Glynn summand of the expanded matrix depends on the sign vector `s` only through the
number of minus signs in each block of equal rows -/
theorem summand_eq (a₀ : γ → R) (A : ν → γ → R) (s : (Σ i, Fin (μ i)) → Bool) :
    (∏ k, deltaO (R := R) s k) * ∏ j, ∑ k, deltaO s k * expand μ c a₀ A k j =
      (-1) ^ (∑ i, #{l : Fin (μ i) | s ⟨i, l⟩ = true}) *
        ∏ j, (a₀ j + ∑ i, ((μ i : ℤ) - 2 * (#{l : Fin (μ i) | s ⟨i, l⟩ = true} : ℤ) : ℤ) • A i j)
          ^ (c j) := by
  congr 1
  · rw [Fintype.prod_option, Fintype.prod_sigma, ← Finset.prod_pow_eq_pow_sum]
    simp only [deltaO, one_mul]
    exact Finset.prod_congr rfl fun i _ => prod_sgn (fun l => s ⟨i, l⟩)
  · rw [Fintype.prod_sigma]
    refine Finset.prod_congr rfl fun j _ => ?_
    have : ∀ l' : Fin (c j), ∑ k, deltaO s k * expand μ c a₀ A k ⟨j, l'⟩ =
        a₀ j + ∑ i, ((μ i : ℤ) - 2 * (#{l : Fin (μ i) | s ⟨i, l⟩ = true} : ℤ) : ℤ) • A i j := by
      intro l'
      rw [Fintype.sum_option, Fintype.sum_sigma]
      simp only [deltaO, expand, one_mul]
      congr 1
      refine Finset.sum_congr rfl fun i _ => ?_
      rw [← Finset.sum_mul, sum_sgn (fun l => s ⟨i, l⟩), Fintype.card_fin, zsmul_eq_mul]
    simp only [this, Finset.prod_const, Finset.card_univ, Fintype.card_fin]

/-- **Glynn's formula with multiplicities** (general index types; the permanent of the expanded
matrix written as a sum over bijections from expanded columns to expanded rows). -/
theorem glynn_mult_gen (h : ∑ j, c j = 1 + ∑ i, μ i) (a₀ : γ → R) (A : ν → γ → R) :
    (2 : R) ^ (∑ i, μ i) *
        ∑ σ : (Σ j, Fin (c j)) ≃ Option (Σ i, Fin (μ i)), ∏ j, expand μ c a₀ A (σ j) j =
      ∑ g ∈ Fintype.piFinset (fun i => Finset.range (μ i + 1)),
        (-1) ^ (∑ i, g i) * (∏ i, ((μ i).choose (g i) : R)) *
          ∏ j, (a₀ j + ∑ i, ((μ i : ℤ) - 2 * (g i : ℤ) : ℤ) • A i j) ^ (c j) := by
  have hcard : Fintype.card (Σ j, Fin (c j)) = Fintype.card (Σ i, Fin (μ i)) + 1 := by
    simp [h, add_comm]
  have hg := glynn_gen (R := R) hcard (expand μ c a₀ A)
  rw [Fintype.card_sigma] at hg
  simp only [Fintype.card_fin] at hg
  rw [hg]
  simp only [summand_eq]
  set F : (ν → ℕ) → R := fun g => (-1) ^ (∑ i, g i) *
    ∏ j, (a₀ j + ∑ i, ((μ i : ℤ) - 2 * (g i : ℤ) : ℤ) • A i j) ^ (c j) with hF
  have h1 : ∑ s : (Σ i, Fin (μ i)) → Bool, F (fun i => #{l : Fin (μ i) | s ⟨i, l⟩ = true}) =
      ∑ t : ∀ i, Fin (μ i) → Bool, F (fun i => #{l : Fin (μ i) | t i l = true}) :=
    Fintype.sum_equiv (Equiv.piCurry (fun _ _ => Bool)) _ _ fun s => rfl
  have h2 := sum_comp_pi (R := R) (α := fun i => Fin (μ i) → Bool)
    (fun i t => #{l : Fin (μ i) | t l = true}) (fun i => Finset.range (μ i + 1))
    (fun i t => by
      rw [Finset.mem_range, Nat.lt_succ_iff]
      exact (Finset.card_filter_le _ _).trans (by simp)) F
  simp only [card_bool_fun, Fintype.card_fin] at h2
  change ∑ s : (Σ i, Fin (μ i)) → Bool, F (fun i => #{l : Fin (μ i) | s ⟨i, l⟩ = true}) = _
  rw [h1, h2]
  refine Finset.sum_congr rfl fun g _ => ?_
  simp only [hF]; ring

/-- the same with the expanded matrix reindexed to an arbitrary square index type `ρ` along
arbitrary bijections (so: for *any* ordering of the expanded rows and columns). The hypothesis
`∑ c = 1 + ∑ μ` is implied by the existence of `er`, `ec`. -/
theorem glynn_mult_reindex {ρ : Type} [Fintype ρ] [DecidableEq ρ]
    (er : ρ ≃ Option (Σ i, Fin (μ i))) (ec : ρ ≃ Σ j, Fin (c j)) (a₀ : γ → R) (A : ν → γ → R) :
    (2 : R) ^ (∑ i, μ i) * (Matrix.of fun r c' => expand μ c a₀ A (er r) (ec c')).permanent =
      ∑ g ∈ Fintype.piFinset (fun i => Finset.range (μ i + 1)),
        (-1) ^ (∑ i, g i) * (∏ i, ((μ i).choose (g i) : R)) *
          ∏ j, (a₀ j + ∑ i, ((μ i : ℤ) - 2 * (g i : ℤ) : ℤ) • A i j) ^ (c j) := by
  have h : ∑ j, c j = 1 + ∑ i, μ i := by
    have h1 := Fintype.card_congr ec
    have h2 := Fintype.card_congr er
    simp only [Fintype.card_sigma, Fintype.card_fin, Fintype.card_option] at h1 h2
    omega
  rw [permanent_reindex_eq]
  exact glynn_mult_gen μ c h a₀ A

end MultMain

section MultFin
variable {n m : ℕ} (μ : Fin n → ℕ) (c : Fin m → ℕ)

/-- rows of the expanded matrix in their natural order: `0 ↦ a₀`, then `μ 0` copies of row `0`,
`μ 1` copies of row `1`, … -/
def rowEquiv : Fin (∑ i, μ i + 1) ≃ Option (Σ i, Fin (μ i)) :=
  (finSuccEquiv _).trans (Equiv.optionCongr finSigmaFinEquiv.symm)

/-- columns of the expanded matrix in their natural order: `c 0` copies of column `0`, … -/
def colEquiv (h : ∑ j, c j = 1 + ∑ i, μ i) : Fin (∑ i, μ i + 1) ≃ Σ j, Fin (c j) :=
  (finCongr (by omega)).trans finSigmaFinEquiv.symm

/-- the expanded square matrix of size `∑ μ + 1` -/
def expandedMatrix (h : ∑ j, c j = 1 + ∑ i, μ i) (a₀ : Fin m → R) (A : Fin n → Fin m → R) :
    Matrix (Fin (∑ i, μ i + 1)) (Fin (∑ i, μ i + 1)) R :=
  Matrix.of fun r c' => expand μ c a₀ A (rowEquiv μ r) (colEquiv μ c h c')

omit [CommRing R] in
theorem expandedMatrix_zero (h : ∑ j, c j = 1 + ∑ i, μ i) (a₀ : Fin m → R) (A : Fin n → Fin m → R)
    (j : Fin m) (l' : Fin (c j)) :
    expandedMatrix μ c h a₀ A 0 (Fin.cast (by omega) (finSigmaFinEquiv ⟨j, l'⟩)) = a₀ j := by
  simp [expandedMatrix, rowEquiv, colEquiv, expand, -Equiv.optionCongr_symm]

omit [CommRing R] in
theorem expandedMatrix_succ (h : ∑ j, c j = 1 + ∑ i, μ i) (a₀ : Fin m → R) (A : Fin n → Fin m → R)
    (i : Fin n) (l : Fin (μ i)) (j : Fin m) (l' : Fin (c j)) :
    expandedMatrix μ c h a₀ A (Fin.succ (finSigmaFinEquiv ⟨i, l⟩))
      (Fin.cast (by omega) (finSigmaFinEquiv ⟨j, l'⟩)) = A i j := by
  simp [expandedMatrix, rowEquiv, colEquiv, expand, -Equiv.optionCongr_symm]

/-- **Glynn's formula with row multiplicities `μ` and column multiplicities `c`**, for the
concrete expanded matrix of size `∑ μ + 1` -/
theorem glynn_mult (h : ∑ j, c j = 1 + ∑ i, μ i) (a₀ : Fin m → R) (A : Fin n → Fin m → R) :
    (2 : R) ^ (∑ i, μ i) * (expandedMatrix μ c h a₀ A).permanent =
      ∑ g ∈ Fintype.piFinset (fun i => Finset.range (μ i + 1)),
        (-1) ^ (∑ i, g i) * (∏ i, ((μ i).choose (g i) : R)) *
          ∏ j, (a₀ j + ∑ i, ((μ i : ℤ) - 2 * (g i : ℤ) : ℤ) • A i j) ^ (c j) :=
  glynn_mult_reindex μ c (rowEquiv μ) (colEquiv μ c h) a₀ A

end MultFin

end Pq.Glynn
