import Mathlib.Tactic
import PqVerif.Model.Sampler
import PqVerif.Lemmas.CliffordClifford

/-!
# C02 — measurement samples follow the Born rule (partial): the sampling schemes

Proved: (i) one draw from unnormalised weights has the normalised law; (ii) a chain-rule sampler whose
conditional weight tables are consistent marginals (`Σ_a marg (l ++ [a]) = marg l`) samples every complete
string `l` with probability `marg l / marg []` — this is the scheme of the Gaussian photon-number sampler
(loop-hafnian chain), the threshold sampler, the marginal sampler of the passive simulator and the last step of
Clifford–Clifford; (iii) aborting a trial as soon as its prefix can no longer be accepted leaves the
probability of every accepted outcome unchanged (post-selection with early abort); (iv) the conditional pmf of
the Clifford–Clifford sampler (`_calculate_pmf`): the number the code squares is the permanent with multiplicities of
the sample extended by the candidate mode, and for orthonormal columns the normaliser is
`Σ_c v_c² |perm(U; r, v − e_c)|²` — Lemma 2 of Clifford & Clifford generalised to bunched inputs.  NOT proved:
the average over the random column order that turns these conditionals into the Born law, and the hafnian /
torontonian tables — the exact law of the real samplers is computed by path enumeration and compared with an
independent oracle instead.
-/
namespace Pq.C02
open Pq.Sampler

variable {α : Type} [DecidableEq α]

/-! ### general facts about finite distributions -/
section helpers
variable {β γ : Type} [DecidableEq β]

theorem prob_cons (e : β × Rat) (d : Sampler.Dist β) (b : β) :
    prob (e :: d) b = (if e.1 = b then e.2 else 0) + prob d b := by
  unfold prob
  by_cases h : e.1 = b <;> simp [h]

theorem prob_append (d₁ d₂ : Sampler.Dist β) (b : β) : prob (d₁ ++ d₂) b = prob d₁ b + prob d₂ b := by
  simp [prob, List.filter_append]

theorem prob_eq_zero (d : Sampler.Dist β) (b : β) (h : ∀ e ∈ d, e.1 ≠ b) : prob d b = 0 := by
  induction d with
  | nil => simp [prob]
  | cons e d ih =>
    rw [prob_cons, ih (fun e' he' => h e' (List.mem_cons_of_mem _ he')),
      if_neg (h e List.mem_cons_self), add_zero]

theorem prob_scale (p : Rat) (d : Sampler.Dist β) (b : β) :
    prob (d.map (fun e => (e.1, p * e.2))) b = p * prob d b := by
  induction d with
  | nil => simp [prob]
  | cons e d ih =>
    rw [List.map_cons, prob_cons, prob_cons, ih]
    split_ifs <;> ring

omit [DecidableEq β] in
theorem bind_cons (a : γ) (p : Rat) (d : Sampler.Dist γ) (f : γ → Sampler.Dist β) :
    Sampler.Dist.bind ((a, p) :: d) f = (f a).map (fun e => (e.1, p * e.2)) ++ Sampler.Dist.bind d f := by
  simp [Sampler.Dist.bind]

theorem prob_bind (d : Sampler.Dist γ) (f : γ → Sampler.Dist β) (b : β) :
    prob (d.bind f) b = (d.map (fun e => e.2 * prob (f e.1) b)).sum := by
  induction d with
  | nil => simp [Sampler.Dist.bind, prob]
  | cons e d ih =>
    obtain ⟨a, p⟩ := e
    rw [bind_cons, prob_append, prob_scale, ih]
    simp

theorem prob_bind_single [DecidableEq γ] (d : Sampler.Dist γ) (f : γ → Sampler.Dist β) (b : β) (a0 : γ)
    (h : ∀ a, a ≠ a0 → prob (f a) b = 0) :
    prob (d.bind f) b = prob d a0 * prob (f a0) b := by
  rw [prob_bind]
  induction d with
  | nil => simp [prob]
  | cons e d ih =>
    rw [List.map_cons, List.sum_cons, ih, prob_cons]
    by_cases he : e.1 = a0
    · simp [he]; ring
    · simp [he, h _ he]

omit [DecidableEq β] in
theorem total_bind (d : Sampler.Dist γ) (f : γ → Sampler.Dist β) :
    ((d.bind f).map (·.2)).sum = (d.map (fun e => e.2 * ((f e.1).map (·.2)).sum)).sum := by
  induction d with
  | nil => simp [Sampler.Dist.bind]
  | cons e d ih =>
    obtain ⟨a, p⟩ := e
    rw [bind_cons, List.map_append, List.sum_append, ih]
    simp [List.sum_map_mul_left, Function.comp_def]

theorem prob_map_single (A : List γ) (hA : A.Nodup) (g : γ → β) (c : γ → Rat) (a : γ) (ha : a ∈ A)
    (hinj : ∀ a' ∈ A, g a' = g a → a' = a) :
    prob (A.map (fun a => (g a, c a))) (g a) = c a := by
  induction A with
  | nil => simp at ha
  | cons x xs ih =>
    rw [List.map_cons, prob_cons]
    rw [List.nodup_cons] at hA
    by_cases hx : x = a
    · subst hx
      rw [prob_eq_zero, if_pos rfl, add_zero]
      intro e he
      rw [List.mem_map] at he
      obtain ⟨a', ha', rfl⟩ := he
      intro hg
      exact hA.1 (hinj a' (List.mem_cons_of_mem _ ha') hg ▸ ha')
    · have hax : a ∈ xs := by
        rcases List.mem_cons.1 ha with h | h
        · exact absurd h.symm hx
        · exact h
      have : g x ≠ g a := fun hg => hx (hinj x List.mem_cons_self hg)
      rw [if_neg this, zero_add]
      exact ih hA.2 hax (fun a' ha' => hinj a' (List.mem_cons_of_mem _ ha'))

omit [DecidableEq β] in
theorem draw_map (A : List γ) (w : γ → Rat) (g : γ → β) :
    (draw A w).map (fun (a, p) => (g a, p)) = A.map (fun a => (g a, w a / (A.map w).sum)) := by
  simp [draw, Function.comp_def]

end helpers

/-- inverse-CDF pick: outcome `a` has probability `w a / Σ w` -/
theorem pick_law (A : List α) (hA : A.Nodup) (w : α → Rat) (a : α) (ha : a ∈ A) :
    prob (draw A w) a = w a / (A.map w).sum := by
  have h := prob_map_single A hA id (fun a => w a / (A.map w).sum) a ha (fun _ _ h => h)
  simpa [draw] using h

omit [DecidableEq α] in
/-- the outcomes of the chain sampler are strings of length `k` over `A` -/
theorem chain_mem (A : List α) (w : List α → α → Rat) (k : Nat) :
    ∀ e ∈ chain A w k, e.1.length = k ∧ ∀ x ∈ e.1, x ∈ A := by
  induction k with
  | zero => intro e he; simp [chain, Dist.pure] at he; simp [he]
  | succ k ih =>
    intro e he
    simp only [chain, Dist.bind, List.mem_flatMap, List.mem_map, draw] at he
    obtain ⟨⟨l, p⟩, hl, ⟨b, q⟩, ⟨⟨a', q'⟩, ⟨a, ha, h1⟩, h2⟩, rfl⟩ := he
    obtain ⟨hlen, hmem⟩ := ih _ hl
    simp only [Prod.mk.injEq] at h1 h2
    obtain ⟨rfl, -⟩ := h1
    obtain ⟨rfl, -⟩ := h2
    refine ⟨by simp [hlen], ?_⟩
    intro x hx
    rcases List.mem_append.1 hx with h | h
    · exact hmem x h
    · simp at h; exact h ▸ ha

/-- one step of the chain sampler -/
theorem chain_succ_concat (A : List α) (hA : A.Nodup) (w : List α → α → Rat) (k : Nat)
    (pre : List α) (a : α) (ha : a ∈ A) :
    prob (chain A w (k + 1)) (pre ++ [a])
      = prob (chain A w k) pre * (w pre a / (A.map (w pre)).sum) := by
  rw [chain, prob_bind_single _ _ _ pre]
  · congr 1
    rw [draw_map A _ (fun a => pre ++ [a])]
    exact prob_map_single A hA (fun a => pre ++ [a]) _ a ha (fun a' _ h => by simpa using h)
  · intro l hl
    rw [draw_map A _ (fun a => l ++ [a])]
    apply prob_eq_zero
    intro e he
    rw [List.mem_map] at he
    obtain ⟨a', -, rfl⟩ := he
    intro h
    exact hl (List.append_inj_left' h rfl)

/-- chain rule: consistent marginals ⇒ the joint law -/
theorem chain_sampler_law (A : List α) (hA : A.Nodup) (marg : List α → Rat)
    (hpos : ∀ l, (∀ x ∈ l, x ∈ A) → marg l ≠ 0)
    (hcons : ∀ l, (A.map (fun a => marg (l ++ [a]))).sum = marg l)
    (k : Nat) (l : List α) (hl : l.length = k) (hmem : ∀ x ∈ l, x ∈ A) :
    prob (chain A (fun pre a => marg (pre ++ [a])) k) l = marg l / marg [] := by
  have h0 : marg [] ≠ 0 := hpos [] (by simp)
  induction k generalizing l with
  | zero =>
    obtain rfl : l = [] := List.length_eq_zero_iff.1 hl
    simp [chain, Dist.pure, prob, h0]
  | succ k ih =>
    rcases List.eq_nil_or_concat' l with rfl | ⟨pre, a, rfl⟩
    · simp at hl
    · have hpre : ∀ x ∈ pre, x ∈ A := fun x hx => hmem x (List.mem_append_left _ hx)
      have ha : a ∈ A := hmem a (by simp)
      have hlen : pre.length = k := by simpa using hl
      rw [chain_succ_concat A hA _ k pre a ha, ih pre hlen hpre, hcons pre]
      have := hpos pre hpre
      field_simp

set_option linter.unusedSectionVars false in
/-- the law is a probability distribution: total weight one -/
theorem chain_total (A : List α) (hA : A.Nodup) (marg : List α → Rat)
    (hpos : ∀ l, (∀ x ∈ l, x ∈ A) → marg l ≠ 0)
    (hcons : ∀ l, (A.map (fun a => marg (l ++ [a]))).sum = marg l) (k : Nat) :
    ((chain A (fun pre a => marg (pre ++ [a])) k).map (·.2)).sum = 1 := by
  have _hA := hA
  induction k with
  | zero => simp [chain, Dist.pure]
  | succ k ih =>
    rw [chain, total_bind, ← ih]
    congr 1
    apply List.map_congr_left
    intro e he
    obtain ⟨-, hmem⟩ := chain_mem A _ k e he
    have hz := hpos e.1 hmem
    rw [draw_map A _ (fun a => e.1 ++ [a]), List.map_map]
    simp only [Function.comp_def, hcons, div_eq_mul_inv, List.sum_map_mul_right]
    rw [mul_inv_cancel₀ hz, mul_one]

/-- one step of the aborting sampler -/
theorem chainAbort_succ_concat (A : List α) (w : List α → α → Rat) (bad : List α → Bool) (k : Nat)
    (pre : List α) (a : α) :
    prob (chainAbort A w bad (k + 1)) (some (pre ++ [a]))
      = prob (chainAbort A w bad k) (some pre) *
        prob ((draw A (w pre)).map
          (fun (a, p) => (if bad (pre ++ [a]) then none else some (pre ++ [a]), p))) (some (pre ++ [a])) := by
  rw [chainAbort, prob_bind_single _ _ _ (some pre)]
  intro o ho
  cases o with
  | none => simp [Dist.pure, prob]
  | some l =>
    dsimp only
    rw [draw_map A _ (fun a => if bad (l ++ [a]) then none else some (l ++ [a]))]
    apply prob_eq_zero
    intro e he
    rw [List.mem_map] at he
    obtain ⟨a', -, rfl⟩ := he
    intro h
    simp only at h
    split_ifs at h
    simp only [Option.some.injEq] at h
    exact ho (congrArg some (List.append_inj_left' h rfl))

/-- rejection with early abort: if `bad` prefixes stay bad under extension, every string whose prefixes are
all good is produced with exactly the probability the plain sampler gives it — so conditioning on acceptance
gives the same law, early abort only saves work -/
theorem early_abort_sound (A : List α) (hA : A.Nodup) (w : List α → α → Rat) (bad : List α → Bool)
    (k : Nat) (l : List α) (hl : l.length = k) (hmem : ∀ x ∈ l, x ∈ A)
    (hgood : ∀ p, p <+: l → p ≠ [] → bad p = false) :
    prob (chainAbort A w bad k) (some l) = prob (chain A w k) l := by
  induction k generalizing l with
  | zero =>
    obtain rfl : l = [] := List.length_eq_zero_iff.1 hl
    simp [chain, chainAbort, Dist.pure, prob]
  | succ k ih =>
    rcases List.eq_nil_or_concat' l with rfl | ⟨pre, a, rfl⟩
    · simp at hl
    · have hpre : ∀ x ∈ pre, x ∈ A := fun x hx => hmem x (List.mem_append_left _ hx)
      have ha : a ∈ A := hmem a (by simp)
      have hlen : pre.length = k := by simpa using hl
      have hg : bad (pre ++ [a]) = false := hgood _ (List.prefix_refl _) (by simp)
      rw [chainAbort_succ_concat, chain_succ_concat A hA w k pre a ha,
        ih pre hlen hpre (fun p hp hne => hgood p (hp.trans (List.prefix_append _ _)) hne)]
      congr 1
      rw [draw_map A _ (fun a => if bad (pre ++ [a]) then none else some (pre ++ [a]))]
      have := prob_map_single A hA
        (fun a => if bad (pre ++ [a]) then none else some (pre ++ [a]))
        (fun a => w pre a / (A.map (w pre)).sum) a ha (by
          intro a' _ h
          have h' : (if bad (pre ++ [a']) then none else some (pre ++ [a'])) = some (pre ++ [a]) := by
            simpa [hg] using h
          split_ifs at h'
          simpa using h')
      simp only [hg, Bool.false_eq_true, if_false] at this
      exact this

/-- and a string with a bad prefix is never returned -/
theorem early_abort_never_bad (A : List α) (w : List α → α → Rat) (bad : List α → Bool)
    (k : Nat) (l : List α) (p : List α) (hp : p <+: l) (hne : p ≠ []) (hbad : bad p = true) :
    prob (chainAbort A w bad k) (some l) = 0 := by
  induction k generalizing l with
  | zero =>
    have : l ≠ [] := by rintro rfl; exact hne (List.prefix_nil.1 hp)
    simp [chainAbort, Dist.pure, prob, this]
  | succ k ih =>
    rcases List.eq_nil_or_concat' l with rfl | ⟨pre, a, rfl⟩
    · exact absurd (List.prefix_nil.1 hp) hne
    · rw [chainAbort_succ_concat]
      by_cases hb : bad (pre ++ [a]) = true
      · convert mul_zero _
        rw [draw_map A _ (fun a => if bad (pre ++ [a]) then none else some (pre ++ [a]))]
        apply prob_eq_zero
        intro e he
        rw [List.mem_map] at he
        obtain ⟨a', -, rfl⟩ := he
        intro h
        simp only at h
        split_ifs at h with h'
        simp only [Option.some.injEq] at h
        rw [h] at h'
        exact h' hb
      · have hpp : p <+: pre := by
          rcases List.prefix_concat_iff.1 hp with h | h
          · exact absurd (h ▸ hbad) hb
          · exact h
        rw [ih pre hpp, zero_mul]


/-! ### the conditional pmf of the Clifford–Clifford sampler -/

open Pq.Kernel Pq.FockRep Pq.CliffordClifford in
/-- `permanent_i` of `_calculate_pmf` is `perm(U; r + e_i, v)` -/
theorem cc_pmf_numerator {n k : Nat} (U : Fin n → Fin k → ℂ) (r : Fin n → Nat) (v : Fin k → Nat) (i : Fin n) :
    ∑ c, (v c : ℂ) * (U i c * permSpec U r (decRow v c)) = permSpec U (incRow r i) v :=
  Pq.CliffordClifford.pmf_numerator U r v i

open Pq.Kernel Pq.FockRep Pq.CliffordClifford in
/-- the normaliser of the conditional pmf for an interferometer with orthonormal columns, any multiplicities -/
theorem cc_pmf_normalisation {n k : Nat} (U : Fin n → Fin k → ℂ) (r : Fin n → Nat) (v : Fin k → Nat)
    (hU : ∀ c c' : Fin k, ∑ i, (starRingEnd ℂ) (U i c) * U i c' = if c = c' then 1 else 0) :
    ∑ i, Complex.normSq (permSpec U (incRow r i) v)
      = ∑ c, ((v c : ℝ)) ^ 2 * Complex.normSq (permSpec U r (decRow v c)) :=
  Pq.CliffordClifford.pmf_normalisation U r v hU

end Pq.C02
