import PqVerif.Lemmas.CombIndex
import PqVerif.Lemmas.CombLoop
import PqVerif.Lemmas.Fermi

/-!
# C06 — Fock-basis enumeration and index functions are mutually inverse

Property theorems only.  Everything is stated about the executable models of
`Model/Comb.lean` (which the correspondence check runs against the real functions):
`fockBasis` (the `partitions` separator loop per sector), `indexInFockSpace`,
`indexInFockSubspace`, the `_array` variants, `cutoffDim`, `subspaceCard`, and the
fermionic `fermiBasis` / `fermiIndex` / `fermiCutoffDim`.
All statements hold for every number of modes `d+1 ≥ 1` and every cutoff `c`.
-/
namespace Pq.C06
open Pq.Comb

/-- the loop-based basis is the recursive anti-lexicographic specification -/
theorem fockBasis_eq_basis (d c : Nat) : fockBasis (d + 1) c = basis (d + 1) c := by
  unfold fockBasis basis
  apply List.flatMap_congr
  intro n _
  rw [partitions_eq_parts, subspaceCard_eq]
  have hl : (parts (d + 1) n).length = Nat.choose (n + d) d := by
    have := congrArg List.length (map_index_parts d n)
    simpa using this
  rw [Nat.choose_symm_add] 
  exact List.take_of_length_le (by omega)

/-- **completeness and soundness**: the basis lists exactly the occupation vectors on
`d+1` modes with total particle number below the cutoff -/
theorem mem_fockBasis (d c : Nat) (v : List Nat) :
    v ∈ fockBasis (d + 1) c ↔ v.length = d + 1 ∧ v.sum < c := by
  rw [fockBasis_eq_basis]; exact mem_basis _ _ _

/-- **exactly once** -/
theorem fockBasis_nodup (d c : Nat) : (fockBasis (d + 1) c).Nodup := by
  rw [fockBasis_eq_basis]; exact nodup_basis d c

/-- **index ∘ basis = id**: the index function maps each listed vector to its position -/
theorem index_basis (d c i : Nat) (v : List Nat) (h : (fockBasis (d + 1) c)[i]? = some v) :
    indexInFockSpace v = i := by
  rw [fockBasis_eq_basis] at h
  rw [indexInFockSpace_eq_index]; exact index_getElem d c i v h

/-- **basis ∘ index = id** on every vector the cutoff admits -/
theorem basis_index (d c : Nat) (v : List Nat) (hl : v.length = d + 1) (hs : v.sum < c) :
    (fockBasis (d + 1) c)[indexInFockSpace v]? = some v := by
  rw [fockBasis_eq_basis, indexInFockSpace_eq_index]; exact getElem_index d c v hl hs

/-- positions are `0 … dim-1` in order (the strongest form: both directions at once) -/
theorem map_index_fockBasis (d c : Nat) :
    (fockBasis (d + 1) c).map indexInFockSpace = List.range (cutoffDim c (d + 1)) := by
  rw [fockBasis_eq_basis]
  have : indexInFockSpace = index := funext indexInFockSpace_eq_index
  rw [this, map_index_basis]
  cases c with
  | zero => simp [cutoffDim_zero]
  | succ c =>
    rw [cutoffDim_eq]
    congr 2
    omega

/-- **dimension formula** agrees with the enumeration -/
theorem cutoffDim_eq_length (d c : Nat) :
    cutoffDim c (d + 1) = (fockBasis (d + 1) c).length := by
  have := congrArg List.length (map_index_fockBasis d c)
  simpa using this.symm

/-- sector size formula agrees with the enumeration of one sector -/
theorem subspaceCard_eq_length (d n : Nat) :
    subspaceCard (d + 1) n = (partitions (d + 1) n).length := by
  rw [partitions_eq_parts, subspaceCard_eq]
  have := congrArg List.length (map_index_parts d n)
  rw [Nat.choose_symm_add]
  simpa using this.symm

/-- **ordering**: sectors by particle number … -/
theorem fockBasis_sorted_by_number (d c : Nat) :
    (fockBasis (d + 1) c).Pairwise (fun a b => a.sum ≤ b.sum) := by
  rw [fockBasis_eq_basis]; exact basis_sum_sorted _ _

/-- … and anti-lexicographic inside a sector -/
theorem partitions_antilex (d n : Nat) : (partitions (d + 1) n).Pairwise lexGT := by
  rw [partitions_eq_parts]; exact parts_antilex _ _

/-- **sub-space index** = index minus the number of vectors in lower sectors -/
theorem index_eq_offset_add_subindex (v0 : Nat) (r : List Nat) :
    indexInFockSpace (v0 :: r) =
      cutoffDim (v0 + r.sum) (r.length + 1) + indexInFockSubspace (v0 :: r) := by
  rw [indexInFockSpace_eq_index, indexInFockSubspace_cons, index]
  congr 1
  cases h : v0 + r.sum with
  | zero => simp [cutoffDim_zero]
  | succ m =>
    rw [cutoffDim_eq]
    rw [show m + 1 + r.length = r.length + 1 + m by omega]

/-- **vectorised index** agrees with the scalar one (before the `int32` store) -/
theorem indexArr_eq (v : List Nat) : indexInFockSpaceArr v = indexInFockSpace v := by
  rw [indexInFockSpaceArr_eq_index, indexInFockSpace_eq_index]

theorem subindexArr_eq (v0 : Nat) (r : List Nat) :
    indexInFockSubspaceArr (v0 :: r) = indexInFockSubspace (v0 :: r) := by
  rw [indexInFockSubspaceArr_cons, indexInFockSubspace_cons]

/-- the `int32` store is exact below the 32-bit index range … -/
theorem wrap32_exact (n : Nat) (h : n < 2147483648) : wrap32 n = n := by
  unfold wrap32
  have : n % 4294967296 = n := Nat.mod_eq_of_lt (by omega)
  simp [this, h]

/-- … and not beyond it (the guard in the property statement is necessary) -/
theorem wrap32_witness : wrap32 2147483648 = -2147483648 := by decide

/-- `comb` is the binomial coefficient for all arguments -/
theorem comb_spec (n k : Nat) : comb n k = Nat.choose n k := comb_eq_choose n k

/-! ### fermionic -/

theorem fermi_index_basis (d cutoff : Nat) (h : cutoff ≤ d + 1) :
    (fermiBasis d cutoff).map fermiIndex =
      (List.range (fermiCutoffDim d cutoff)).map Int.ofNat :=
  fermi_map_index_basis d cutoff h

theorem fermi_basis_spec (d cutoff : Nat) (h : cutoff ≤ d + 1) :
    fermiBasis d cutoff = fermiBasisSpec d cutoff :=
  fermiBasis_eq_spec d cutoff h

/-- non-vacuity: concrete instances of the hypotheses -/
example : (fockBasis 3 3)[5]? = some [1, 1, 0] ∧ indexInFockSpace [1, 1, 0] = 5 := by decide
example : [2, 0, 1].length = 2 + 1 ∧ [2, 0, 1].sum < 4 := by decide

end Pq.C06
