import PqVerif.Lemmas.FockRepLaws
import PqVerif.Lemmas.GaussCongr
import PqVerif.Lemmas.IndexLaws

/-!
# C01 — all bosonic simulators agree on photon-number statistics (partial)

Proved: the recurrence by which the PureFock / Fock simulators lift an interferometer to Fock space
(`Model/FockRep.lean`) computes the permanent with multiplicities — the formula the PassiveSimulator
evaluates directly (through the kernel proved in C04) — hence these three simulators agree on every
passive circuit and number-state input, in every sector; passive gates never mix particle numbers;
the Gaussian simulator's passive update is the unitary congruence (C07).
NOT proved: that ACTIVE gates in Fock space (squeezing / displacement matrices by recurrence) and the
Gaussian → Fock probabilities (hafnians) agree with the symplectic picture (metaplectic representation):
these are compared on the real simulators only.
-/
namespace Pq.C01
open BigOperators Pq.FockRep Pq.Kernel Pq.Gauss Matrix

variable {K : Type} [Field K]

/-- the Fock-space recurrence = the permanent formula, for every interferometer (unitary or not), every
number of modes, every pair of occupation vectors with equal particle number -/
theorem fockRep_eq_permSpec {d : Nat} (U : Fin d → Fin d → K) (m v : Fin d → Nat)
    (h : ∑ i, m i = ∑ j, v j) :
    fockRepP (matList U) (vecList m) (vecList v) = permSpec U m v :=
  Pq.FockRep.fockRepP_eq_permSpec U m v h

/-- consequently the transition amplitude between number states is `perm(U[out, in]) / sqrt(out! in!)`
in all three simulators: the square-root-free form of the statement is that the recurrence and the native
permanent kernel (C04) return the same number -/
theorem passive_amplitude_formula [CharZero K] {d : Nat} (U : Fin d → Fin d → K) (m v : Fin d → Nat)
    (h : ∑ i, m i = ∑ j, v j) (threads : Nat) (ht : 0 < threads) :
    some (fockRepP (matList U) (vecList m) (vecList v)) =
      permanent false threads (matList U) (vecList m) (vecList v) := by
  rw [Pq.FockRep.fockRepP_eq_permSpec U m v h, Pq.Kernel.permanent_eq_permSpec U m v threads ht h]

/-- a passive gate conserves the particle number exactly, also in the truncated space: amplitudes
between different particle numbers vanish -/
theorem number_conserving_block_structure {d : Nat} (U : Fin d → Fin d → K) (m v : Fin d → Nat)
    (h : ∑ i, m i ≠ ∑ j, v j) :
    fockRepP (matList U) (vecList m) (vecList v) = 0 :=
  Pq.FockRep.fockRepP_zero_of_ne U m v h

/-- the Gaussian simulator's passive update is the congruence by the embedded unitary -/
theorem gauss_passive_is_congruence {F : Type} [CommRing F] [StarRing F] {d k : Nat}
    (T : Matrix (Fin k) (Fin k) F) (modes : Fin k → Fin d) (hinj : Function.Injective modes)
    (s : State F d) (hC : s.Cᴴ = s.C) (hG : s.Gᵀ = s.G) (hT : T * Tᴴ = 1) :
    gamma (applyPassive T modes s) = Smat T 0 modes * gamma s * (Smat T 0 modes)ᴴ := by
  rw [applyPassive_eq T modes hinj s hC hG]
  exact applyLinear_eq_congr T 0 modes hinj s hC hG (by simpa using hT) (by simp)

end Pq.C01
