import PqVerif.Lemmas.FockRepLaws
import PqVerif.Lemmas.GaussCongr
import PqVerif.Lemmas.IndexLaws
import PqVerif.Lemmas.Intertwine

/-!
# C01 — all bosonic simulators agree on photon-number statistics (partial)

Proved: the recurrence by which the PureFock / Fock simulators lift an interferometer to Fock space
(`Model/FockRep.lean`) computes the permanent with multiplicities — the formula the PassiveSimulator
evaluates directly (through the kernel proved in C04) — hence these three simulators agree on every
passive circuit and number-state input, in every sector; passive gates never mix particle numbers;
the Gaussian simulator's passive update is the unitary congruence (C07).
ACTIVE single-mode gates: the matrices the Fock simulators build for `Displacement` and `Squeezing` (column
recurrences of `create_single_mode_displacement_matrix` / `create_single_mode_squeezing_matrix`, proved equal to the
closed forms `dispEntry` / `sqEntry` for every cutoff: `displacement_loop`, `squeezing_loop`) transform the ladder
operators exactly as the Gaussian simulator transforms the moments: `a D = D (a + α)`, `a S = S (P a + A a†)` with `P`,
`A` the blocks regenerated from `gates.py` (`displacement_heisenberg`, `squeezing_heisenberg`), and the vacuum column
of `D` is the coherent state. These are entrywise identities of the un-truncated matrices.
NOT proved: the effect of truncating these matrices at the cutoff, multi-mode active gates through the
Bloch–Messiah decomposition (contracts in C15, connectors in C09) and the Gaussian → Fock probabilities (hafnians):
these are compared on the real simulators.
-/
namespace Pq.C01
open BigOperators Pq.FockRep Pq.Kernel Pq.Gauss Matrix

variable {K : Type} [Field K]

/-- the Fock-space recurrence = the permanent formula, for every interferometer (unitary or not), every
number of modes, every pair of occupation vectors with equal particle number -/
theorem fockRep_eq_permSpec {d : Nat} (U : Fin d → Fin d → K) (m v : Fin d → Nat)
    (h : ∑ i, m i = ∑ j, v j) :
    fockRepP (matList U) (vecList m) (vecList v) = permSpec U m v :=
  Pq.FockRep.fockRepP_eq_permSpec U m v h

/-- consequently the transition amplitude between number states is `perm(U[out, in]) / sqrt(out! in!)`
in all three simulators: the square-root-free form of the statement is that the recurrence and the native
permanent kernel (C04) return the same number -/
theorem passive_amplitude_formula [CharZero K] {d : Nat} (U : Fin d → Fin d → K) (m v : Fin d → Nat)
    (h : ∑ i, m i = ∑ j, v j) (threads : Nat) (ht : 0 < threads) :
    some (fockRepP (matList U) (vecList m) (vecList v)) =
      permanent false threads (matList U) (vecList m) (vecList v) := by
  rw [Pq.FockRep.fockRepP_eq_permSpec U m v h, Pq.Kernel.permanent_eq_permSpec U m v threads ht h]

/-- a passive gate conserves the particle number exactly, also in the truncated space: amplitudes
between different particle numbers vanish -/
theorem number_conserving_block_structure {d : Nat} (U : Fin d → Fin d → K) (m v : Fin d → Nat)
    (h : ∑ i, m i ≠ ∑ j, v j) :
    fockRepP (matList U) (vecList m) (vecList v) = 0 :=
  Pq.FockRep.fockRepP_zero_of_ne U m v h

/-- the Gaussian simulator's passive update is the congruence by the embedded unitary -/
theorem gauss_passive_is_congruence {F : Type} [CommRing F] [StarRing F] {d k : Nat}
    (T : Matrix (Fin k) (Fin k) F) (modes : Fin k → Fin d) (hinj : Function.Injective modes)
    (s : State F d) (hC : s.Cᴴ = s.C) (hG : s.Gᵀ = s.G) (hT : T * Tᴴ = 1) :
    gamma (applyPassive T modes s) = Smat T 0 modes * gamma s * (Smat T 0 modes)ᴴ := by
  rw [applyPassive_eq T modes hinj s hC hG]
  exact applyLinear_eq_congr T 0 modes hinj s hC hG (by simpa using hT) (by simp)


/-! ## active single-mode gates: Fock picture = symplectic picture -/

/-- the loop of `create_single_mode_displacement_matrix` computes the closed form, every cutoff and entry -/
theorem displacement_loop (c : ℕ) (r φ : ℝ) (m n : ℕ) :
    Pq.DispRec.entry c r φ m n = Pq.GradLaws.dispEntry m n r φ :=
  Pq.DispRec.entry_eq_dispEntry c r φ m n

/-- the loop of `create_single_mode_squeezing_matrix` computes the closed form, every cutoff and entry -/
theorem squeezing_loop (c : ℕ) (r φ : ℝ) (m n : ℕ) :
    Pq.SqueezeRec.entry c r φ m n = Pq.SqueezeRec.sqEntry m n r φ :=
  Pq.SqueezeRec.sq_loop_closed_form c r φ m n

open Pq.GradLaws in
/-- `a D = D (a + α)` and `a† D = D (a† + conj α)`, `α = r e^{iφ}`: the displacement matrix shifts the ladder operators by
the amount the Gaussian simulator adds to the mean; its vacuum column is the coherent state -/
theorem displacement_heisenberg (m n : ℕ) (r φ : ℝ) :
    ((Real.sqrt ((m + 1 : ℕ) : ℝ) : ℂ) * dispEntry (m + 1) n r φ
        = (Real.sqrt (n : ℝ) : ℂ) * dispEntry m (n - 1) r φ
          + ((r : ℂ) * Complex.exp (Complex.I * φ)) * dispEntry m n r φ) ∧
    ((Real.sqrt (m : ℝ) : ℂ) * dispEntry (m - 1) n r φ
        = (Real.sqrt ((n + 1 : ℕ) : ℝ) : ℂ) * dispEntry m (n + 1) r φ
          + (starRingEnd ℂ) ((r : ℂ) * Complex.exp (Complex.I * φ)) * dispEntry m n r φ) ∧
    (dispEntry m 0 r φ = Complex.exp (-(r : ℂ) ^ 2 / 2) * ((r : ℂ) * Complex.exp (Complex.I * φ)) ^ m
        / (Real.sqrt (m.factorial : ℝ) : ℂ)) :=
  ⟨Pq.Intertwine.disp_annihilation m n r φ, Pq.Intertwine.disp_creation m n r φ, Pq.Intertwine.disp_vacuum m r φ⟩

open Pq.SqueezeRec Pq.Gen.Gates in
/-- `a S = S (P a + A a†)` and its adjoint, with `P`, `A` the passive / active block of `pq.Squeezing` as regenerated
from `gates.py` — the blocks the Gaussian simulator applies to the moments -/
theorem squeezing_heisenberg (m n : ℕ) (r φ : ℝ) :
    ((Real.sqrt ((m + 1 : ℕ) : ℝ) : ℂ) * sqEntry (m + 1) n r φ
        = Squeezing_passive r φ 0 0 * (Real.sqrt (n : ℝ) : ℂ) * sqEntry m (n - 1) r φ
          + Squeezing_active r φ 0 0 * (Real.sqrt ((n + 1 : ℕ) : ℝ) : ℂ) * sqEntry m (n + 1) r φ) ∧
    ((Real.sqrt (m : ℝ) : ℂ) * sqEntry (m - 1) n r φ
        = (starRingEnd ℂ) (Squeezing_passive r φ 0 0) * (Real.sqrt ((n + 1 : ℕ) : ℝ) : ℂ) * sqEntry m (n + 1) r φ
          + (starRingEnd ℂ) (Squeezing_active r φ 0 0) * (Real.sqrt (n : ℝ) : ℂ) * sqEntry m (n - 1) r φ) :=
  ⟨Pq.Intertwine.squeeze_annihilation m n r φ, Pq.Intertwine.squeeze_creation m n r φ⟩

end Pq.C01
