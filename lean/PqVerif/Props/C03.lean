import PqVerif.Lemmas.EngineInv
import PqVerif.Props.C03Chain

/-!
# C03 — shot accounting (finite shots)

`Pq.Engine.execute` models `Simulator.execute_instructions`; a simulation step is any
function satisfying `StepOK` (with `k` shots it returns outcomes with positive integer counts
summing to `k`).  The statements quantify over every program (any number and placement of
measurements, any conditions and outcome-dependent parameters), every such step function, every
`N ≥ 1`.  The `shots=None` chain rule is in `Props/C03Chain.lean`.
-/
namespace Pq.C03
open Pq.Engine

variable {σ : Type}

/-- branch frequencies are `k/N` with positive integers `k` summing to `N` -/
theorem shots_invariant (spec : SimSpec) (oracle : Oracle σ) (hO : StepOK oracle)
    (pval : ParamCheck) (simD : Option Nat) (is : List Instr) (N : Nat) (hN : 0 < N) (init : InitArg) (st0 : σ)
    (w w' : World σ) (bs : List (Branch σ))
    (h : ((execute spec oracle pval simD is (.pos N) init st0).run.run w) = (.ok bs, w')) :
    FreqInv N bs :=
  execute_freqInv spec oracle pval hO simD is N hN init st0 w w' bs h

/-- `int(frequency * shots)` is exactly that integer -/
theorem int_frequency_times_shots_exact (N : Nat) (hN : 0 < N) (bs : List (Branch σ))
    (h : FreqInv N bs) :
    ∃ ks : List Nat, (∀ k ∈ ks, 0 < k) ∧ ks.sum = N ∧ bs.map (copies N) = ks :=
  freqInv_copies N hN bs h

/-- exactly `N` samples -/
theorem samples_length (N : Nat) (hN : 0 < N) (bs : List (Branch σ)) (h : FreqInv N bs) :
    (samples N bs).length = N :=
  Pq.Engine.samples_length N hN bs h

theorem frequencies_sum_to_one (N : Nat) (hN : 0 < N) (bs : List (Branch σ))
    (h : FreqInv N bs) : (bs.map (·.freq)).sum = 1 :=
  freq_sum_one N hN bs h

/-- counts sum to `N` (also when several branches share an outcome) -/
theorem counts_sum {κ : Type} [BEq κ] (key : List Pq.Expr.Val → κ) (N : Nat) (hN : 0 < N)
    (bs : List (Branch σ)) (h : FreqInv N bs) :
    ((getCounts key N bs).map (·.2)).sum = N :=
  Pq.Engine.counts_sum key N hN bs h

/-- non-vacuity: a step splitting 7 shots as 3 + 4 meets the contract's conclusion -/
example : ([3, 4] : List Nat).sum = 7 ∧ ∀ j ∈ ([3, 4] : List Nat), 0 < j := by decide

end Pq.C03
