import PqVerif.Lemmas.EngineInv

/-!
# C12 — execution never modifies what the caller passed in, even on failure

The caller-visible heap of the model is the list of `Cell`s (modes and parameter dict of each
instruction of the program).  `Oracle` is an arbitrary function that may fail on any call:
quantifying over it is quantifying over every fault schedule (step, `_validate`), and parameter
resolution / condition evaluation fail on their own for suitable expressions.
-/
namespace Pq.C12
open Pq.Engine

variable {σ : Type}

/-- heap after `execute` = heap before, returned or raised, valid request or not -/
theorem execute_frame (spec : SimSpec) (oracle : Oracle σ) (pval : ParamCheck) (simD : Option Nat)
    (is : List Instr) (shots : ShotsArg) (init : InitArg) (st0 : σ) :
    ((execute spec oracle pval simD is shots init st0).run.run (initWorld is)).2.heap
      = (initWorld (σ := σ) is).heap :=
  Pq.Engine.execute_frame spec oracle pval simD is shots init st0

/-- consequently re-executing the same objects gives the same outcome as the first time -/
theorem execute_idempotent (spec : SimSpec) (oracle : Oracle σ) (pval : ParamCheck) (simD : Option Nat)
    (is : List Instr) (shots : ShotsArg) (init : InitArg) (st0 : σ) :
    let r1 := (execute spec oracle pval simD is shots init st0).run.run (initWorld is)
    ((execute spec oracle pval simD is shots init st0).run.run
        { heap := r1.2.heap, calls := [] }).1 = r1.1 := by
  intro r1
  have h : r1.2.heap = (initWorld (σ := σ) is).heap :=
    Pq.Engine.execute_frame spec oracle pval simD is shots init st0
  rw [h]
  rfl

/-- a rejected request changes nothing and calls nothing -/
theorem rejected_request_frame (spec : SimSpec) (oracle : Oracle σ) (pval : ParamCheck) (simD : Option Nat)
    (is : List Instr) (shots : ShotsArg) (init : InitArg) (st0 : σ) (e : Err)
    (w : World σ) (h : validateAll spec pval simD is shots init = .error e) :
    (execute spec oracle pval simD is shots init st0).run.run w = (.error e, w) :=
  reject_before_step spec oracle pval simD is shots init st0 e w h

end Pq.C12
