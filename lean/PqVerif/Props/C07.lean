import PqVerif.Lemmas.GateLaws
import PqVerif.Lemmas.GaussCongr

/-!
# C07 — built-in linear gates are physical and act as documented

`Gen/Gates.lean` is regenerated from `piquasso/instructions/gates.py` on every run (the real
`_get_passive_block` / `_get_active_block` executed on symbolic parameters); `Model/Gauss.lean`
models the Gaussian simulator's block update.  All statements are for all real parameters, all
numbers of modes `d`, all mode tuples (any subset, any order).
-/
namespace Pq.C07
open Matrix Pq.Gen.Gates Pq.GateLaws Pq.Gauss

theorem beamsplitter_unitary (theta phi : ℝ) : Unitary' (Beamsplitter_passive theta phi) :=
  Pq.GateLaws.beamsplitter_unitary theta phi
theorem beamsplitter5050_unitary : Unitary' Beamsplitter5050_passive :=
  Pq.GateLaws.beamsplitter5050_unitary
theorem phaseshifter_unitary (phi : ℝ) : Unitary' (Phaseshifter_passive phi) :=
  Pq.GateLaws.phaseshifter_unitary phi
theorem machzehnder_unitary (int_ ext : ℝ) : Unitary' (MachZehnder_passive int_ ext) :=
  Pq.GateLaws.machzehnder_unitary int_ ext
theorem fourier_unitary : Unitary' Fourier_passive := Pq.GateLaws.fourier_unitary
theorem squeezing_symplectic (r phi : ℝ) :
    Symplectic (Squeezing_passive r phi) (Squeezing_active r phi) :=
  Pq.GateLaws.squeezing_symplectic r phi
theorem quadraticphase_symplectic (s : ℝ) :
    Symplectic (QuadraticPhase_passive s) (QuadraticPhase_active s) :=
  Pq.GateLaws.quadraticphase_symplectic s
theorem squeezing2_symplectic (r phi : ℝ) :
    Symplectic (Squeezing2_passive r phi) (Squeezing2_active r phi) :=
  Pq.GateLaws.squeezing2_symplectic r phi
theorem controlledx_symplectic (s : ℝ) :
    Symplectic (ControlledX_passive s) (ControlledX_active s) :=
  Pq.GateLaws.controlledx_symplectic s
theorem controlledz_symplectic (s : ℝ) :
    Symplectic (ControlledZ_passive s) (ControlledZ_active s) :=
  Pq.GateLaws.controlledz_symplectic s

theorem fourier_eq_phaseshifter : Fourier_passive = Phaseshifter_passive (Real.pi / 2) :=
  Pq.GateLaws.fourier_eq_phaseshifter
theorem beamsplitter5050_eq : Beamsplitter5050_passive = Beamsplitter_passive (Real.pi / 4) 0 :=
  Pq.GateLaws.beamsplitter5050_eq
theorem machzehnder_decomposition (int_ ext : ℝ) :
    MachZehnder_passive int_ ext =
      Beamsplitter_passive (Real.pi / 4) (Real.pi / 2) *
      Matrix.diagonal ![(Phaseshifter_passive int_) 0 0, 1] *
      Beamsplitter_passive (Real.pi / 4) (Real.pi / 2) *
      Matrix.diagonal ![(Phaseshifter_passive ext) 0 0, 1] :=
  Pq.GateLaws.machzehnder_decomposition int_ ext
theorem squeezing2_decomposition (r phi : ℝ) :
    Squeezing2_passive r phi =
      Beamsplitter_passive (Real.pi / 4) 0 *
        Matrix.diagonal ![(Squeezing_passive (-r) phi) 0 0, (Squeezing_passive r phi) 0 0] *
        Beamsplitter_passive (-(Real.pi / 4)) 0 ∧
    Squeezing2_active r phi =
      Beamsplitter_passive (Real.pi / 4) 0 *
        Matrix.diagonal ![(Squeezing_active (-r) phi) 0 0, (Squeezing_active r phi) 0 0] *
        ((Beamsplitter_passive (-(Real.pi / 4)) 0).map (starRingEnd ℂ)) :=
  Pq.GateLaws.squeezing2_decomposition r phi
theorem position_displacement (x : ℝ) :
    ((PositionDisplacement_r x : ℝ) : ℂ) * Complex.exp (Complex.I * (PositionDisplacement_phi x : ℝ)) = (x : ℂ) :=
  Pq.GateLaws.position_displacement x
theorem momentum_displacement (p : ℝ) :
    ((MomentumDisplacement_r p : ℝ) : ℂ) * Complex.exp (Complex.I * (MomentumDisplacement_phi p : ℝ)) = Complex.I * (p : ℂ) :=
  Pq.GateLaws.momentum_displacement p
theorem displacement_shift (hbar : ℝ) (h : 0 < hbar) (a alpha : ℂ) :
    let x (z : ℂ) : ℂ := (Real.sqrt (hbar / 2) : ℂ) * (z + (starRingEnd ℂ) z)
    let p (z : ℂ) : ℂ := (Real.sqrt (hbar / 2) : ℂ) * ((z - (starRingEnd ℂ) z) / Complex.I)
    x (a + alpha) - x a = ((Real.sqrt (2 * hbar) * alpha.re : ℝ) : ℂ) ∧
    p (a + alpha) - p a = ((Real.sqrt (2 * hbar) * alpha.im : ℝ) : ℂ) :=
  Pq.GateLaws.displacement_shift hbar h a alpha

section congruence
variable {K : Type} [CommRing K] [StarRing K] {d k : Nat}

theorem applyLinear_mean (P A : Matrix (Fin k) (Fin k) K) (modes : Fin k → Fin d)
    (hinj : Function.Injective modes) (s : State K d) :
    (applyLinear P A modes s).m =
      (Phat modes P).mulVec s.m + (Ahat modes A).mulVec (fun i => star (s.m i)) :=
  Pq.Gauss.applyLinear_mean P A modes hinj s
theorem applyLinear_C (P A : Matrix (Fin k) (Fin k) K) (modes : Fin k → Fin d)
    (hinj : Function.Injective modes) (s : State K d) (hC : s.Cᴴ = s.C) (hG : s.Gᵀ = s.G) :
    (applyLinear P A modes s).C =
      conj (Ahat modes A) * (s.Cᵀ + 1) * (Ahat modes A)ᵀ
      + conj (Ahat modes A) * s.G * (Phat modes P)ᵀ
      + conj (Phat modes P) * conj s.G * (Ahat modes A)ᵀ
      + conj (Phat modes P) * s.C * (Phat modes P)ᵀ :=
  Pq.Gauss.applyLinear_C P A modes hinj s hC hG
theorem applyLinear_G (P A : Matrix (Fin k) (Fin k) K) (modes : Fin k → Fin d)
    (hinj : Function.Injective modes) (s : State K d) (hC : s.Cᴴ = s.C) (hG : s.Gᵀ = s.G)
    (h2 : P * Aᵀ = A * Pᵀ) :
    (applyLinear P A modes s).G =
      (Phat modes P) * (s.Cᵀ + 1) * (Ahat modes A)ᵀ
      + (Phat modes P) * s.G * (Phat modes P)ᵀ
      + (Ahat modes A) * conj s.G * (Ahat modes A)ᵀ
      + (Ahat modes A) * s.C * (Phat modes P)ᵀ :=
  Pq.Gauss.applyLinear_G P A modes hinj s hC hG h2
theorem applyLinear_hermitian (P A : Matrix (Fin k) (Fin k) K) (modes : Fin k → Fin d)
    (hinj : Function.Injective modes) (s : State K d) (hC : s.Cᴴ = s.C) (hG : s.Gᵀ = s.G)
    (h2 : P * Aᵀ = A * Pᵀ) :
    (applyLinear P A modes s).Cᴴ = (applyLinear P A modes s).C ∧
    (applyLinear P A modes s).Gᵀ = (applyLinear P A modes s).G :=
  Pq.Gauss.applyLinear_hermitian P A modes hinj s hC hG h2
/-- the simulator's effect of a linear gate on any subset of modes = congruence by the embedded
symplectic matrix -/
theorem applyLinear_eq_congr (P A : Matrix (Fin k) (Fin k) K) (modes : Fin k → Fin d)
    (hinj : Function.Injective modes) (s : State K d) (hC : s.Cᴴ = s.C) (hG : s.Gᵀ = s.G)
    (h1 : P * Pᴴ - A * Aᴴ = 1) (h2 : P * Aᵀ = A * Pᵀ) :
    gamma (applyLinear P A modes s) = Smat P A modes * gamma s * (Smat P A modes)ᴴ :=
  Pq.Gauss.applyLinear_eq_congr P A modes hinj s hC hG h1 h2
theorem applyPassive_eq (T : Matrix (Fin k) (Fin k) K) (modes : Fin k → Fin d)
    (hinj : Function.Injective modes) (s : State K d) (hC : s.Cᴴ = s.C) (hG : s.Gᵀ = s.G) :
    applyPassive T modes s = applyLinear T 0 modes s :=
  Pq.Gauss.applyPassive_eq T modes hinj s hC hG
end congruence

/-- the two halves combined for the built-in gates: e.g. a two-mode squeezer on ANY two distinct
modes of a `d`-mode Gaussian state, and a beamsplitter (passive update path), act by congruence
with their (proved-symplectic) generated matrices -/
theorem builtin_gate_congruence {d : Nat} (modes : Fin 2 → Fin d)
    (hinj : Function.Injective modes) (s : State ℂ d) (hC : s.Cᴴ = s.C) (hG : s.Gᵀ = s.G) :
    (∀ r phi : ℝ,
      gamma (applyLinear (Squeezing2_passive r phi) (Squeezing2_active r phi) modes s) =
        Smat (Squeezing2_passive r phi) (Squeezing2_active r phi) modes * gamma s *
          (Smat (Squeezing2_passive r phi) (Squeezing2_active r phi) modes)ᴴ) ∧
    (∀ theta phi : ℝ,
      gamma (applyPassive (Beamsplitter_passive theta phi) modes s) =
        Smat (Beamsplitter_passive theta phi) 0 modes * gamma s *
          (Smat (Beamsplitter_passive theta phi) 0 modes)ᴴ) := by
  constructor
  · intro r phi
    obtain ⟨h1, h2⟩ := Pq.GateLaws.squeezing2_symplectic r phi
    exact Pq.Gauss.applyLinear_eq_congr _ _ modes hinj s hC hG h1 h2
  · intro theta phi
    have hU := Pq.GateLaws.beamsplitter_unitary theta phi
    rw [Pq.Gauss.applyPassive_eq _ modes hinj s hC hG]
    refine Pq.Gauss.applyLinear_eq_congr _ _ modes hinj s hC hG ?_ ?_
    · simpa [Pq.GateLaws.Unitary'] using hU
    · simp

end Pq.C07
