import PqVerif.Lemmas.ShimLaws
import PqVerif.Props.C01
import PqVerif.Props.C17

/-!
# C09 — results do not depend on the numerical connector (partial)

Proved: the linear-algebra shims that a connector re-implements are correct constructions GIVEN the contracts of
the primitives they call (checked on the real intermediates by the harness): polar decomposition from a matrix
square root (right and left — and a witness that the matrix the TensorFlow connector used to take the root of is
neither `A†A` nor `AA†`), SVD re-ordering, `logm`/`expm`/`powm` through an eigendecomposition, the lazy Schur
form of a normal matrix.  The connector-specific Fock-space representations of an interferometer are proved equal
to ONE specification each (bosonic: the permanent, C01 — the numba and the generic connector versions are both tied
to the same model; fermionic: the minors, C17), so they agree with each other.
NOT proved: floating-point behaviour of NumPy / TensorFlow / JAX primitives and of compiled (`tf.function`, `jax.jit`)
execution — compared on the real simulators.
-/
namespace Pq.C09
open Matrix Pq.ShimLaws

variable {n : Type} [Fintype n] [DecidableEq n]

theorem polar_right (A P Pinv : Matrix n n ℂ) (hP : P * P = Aᴴ * A) (hPh : Pᴴ = P) (hinv : P * Pinv = 1) :
    let U := A * Pinv
    U * P = A ∧ Uᴴ * U = 1 := Pq.ShimLaws.polar_right A P Pinv hP hPh hinv

theorem polar_left (A P Pinv : Matrix n n ℂ) (hP : P * P = A * Aᴴ) (hPh : Pᴴ = P) (hinv : P * Pinv = 1) :
    let U := Pinv * A
    P * U = A ∧ U * Uᴴ = 1 := Pq.ShimLaws.polar_left A P Pinv hP hPh hinv

theorem conj_sqrt_is_not_polar :
    ∃ A : Matrix (Fin 2) (Fin 2) ℂ, A.map (starRingEnd ℂ) * Aᵀ ≠ Aᴴ * A ∧ A.map (starRingEnd ℂ) * Aᵀ ≠ A * Aᴴ :=
  Pq.ShimLaws.conj_sqrt_is_not_polar

theorem svd_reorder (A U V : Matrix n n ℂ) (s : n → ℂ) (h : A = U * Matrix.diagonal s * Vᴴ) :
    A = U * Matrix.diagonal s * (V.map (starRingEnd ℂ))ᵀ := Pq.ShimLaws.svd_reorder A U V s h

theorem funm_exp_log (M V Vinv : Matrix n n ℂ) (lam l : n → ℂ) (hV : V * Vinv = 1)
    (hM : M = V * Matrix.diagonal lam * Vinv) (hl : ∀ i, Complex.exp (l i) = lam i) :
    NormedSpace.exp (V * Matrix.diagonal l * Vinv) = M := Pq.ShimLaws.funm_exp_log M V Vinv lam l hV hM hl

theorem funm_pow (M V Vinv : Matrix n n ℂ) (lam : n → ℂ) (hV : Vinv * V = 1)
    (hM : M = V * Matrix.diagonal lam * Vinv) (k : ℕ) :
    M ^ k = V * Matrix.diagonal (fun i => lam i ^ k) * Vinv := Pq.ShimLaws.funm_pow M V Vinv lam hV hM k

theorem lazy_schur (M Q : Matrix n n ℂ) (lam : n → ℂ) (hQ : Qᴴ * Q = 1) (hev : M * Q = Q * Matrix.diagonal lam) :
    Qᴴ * M * Q = Matrix.diagonal lam ∧ M = Q * (Qᴴ * M * Q) * Qᴴ := Pq.ShimLaws.lazy_schur M Q lam hQ hev

/-- both bosonic representation algorithms are tied to the same specification (re-exported from C01) -/
theorem bosonic_representation_spec {K : Type} [Field K] {d : Nat} (U : Fin d → Fin d → K) (m v : Fin d → Nat)
    (h : ∑ i, m i = ∑ j, v j) :
    Pq.FockRep.fockRepP (Pq.Kernel.matList U) (Pq.Kernel.vecList m) (Pq.Kernel.vecList v) = Pq.Kernel.permSpec U m v :=
  Pq.C01.fockRep_eq_permSpec U m v h

/-- the fermionic representation is the matrix of minors whichever connector computes it (re-exported from C17) -/
theorem fermionic_representation_spec {K : Type} [CommRing K] {d k : Nat} (U : Fin d → Fin d → K) (R C : Fin k → Fin d) :
    Pq.FermiRep.fermiRep (Pq.FermiRep.matList' U) ((List.finRange k).map (fun i => (R i).val))
      ((List.finRange k).map (fun j => (C j).val)) = (Matrix.of fun i j => U (R i) (C j)).det :=
  Pq.C17.fermiRep_eq_det U R C

end Pq.C09
