import PqVerif.Lemmas.GradLaws
import PqVerif.Lemmas.ShimLaws
import PqVerif.Lemmas.DispRec
import PqVerif.Lemmas.SqueezeRec

/-!
# C10 — automatic derivatives equal the true derivatives (partial)

Proved: the hand-written gradient RULES whose correctness is a mathematical statement:
* `perm_grad`: `∂ perm(A; rows, cols)/∂A i j = rows i · cols j · perm(A; rows - e_i, cols - e_j)`, the rule of
  `grad_perm` (src/permanent.cpp) behind the JAX custom VJP — for every matrix (square or not) and multiplicity
  pattern, with `perm` the permanent with multiplicities proved equal to the native kernel in C04;
* `disp_grad_r`, `disp_grad_phi`: the rules of `create_single_mode_displacement_gradient` for every entry `(m, n)`
  of the displacement matrix (closed form `dispEntry`, compared with the code's matrix on every run);
* `disp_loop_closed_form`: the LOOP of `create_single_mode_displacement_matrix` (column recurrence with the rolled
  index, every cutoff) computes exactly that closed form, so the two rules above are statements about what the code
  builds, not only about a formula compared numerically;
* `sq_loop_closed_form`, `sq_grad_r`, `sq_grad_phi`: the same for the single-mode squeezing matrix — the two-step column
  recurrence of `create_single_mode_squeezing_matrix` computes the closed form `sqEntry` for every cutoff and entry, and
  the rules of `create_single_mode_squeezing_gradient` are the derivatives of every entry with respect to `r` and `phi`;
* `sqrtm_vjp`: the Sylvester-equation cotangent of the matrix square root used by the TensorFlow connector after the
  fix of this round.
NOT proved: the vector–Jacobian products of state-vector application and of the interferometer
representation, the autodiff of TensorFlow / JAX themselves — all compared with finite differences of the NumPy
simulation on the real code.
-/
namespace Pq.C10
open BigOperators Pq.Kernel Pq.GradLaws Matrix

theorem perm_grad {n m : Nat} (A : Fin n → Fin m → ℂ) (rows : Fin n → Nat) (cols : Fin m → Nat)
    (i : Fin n) (j : Fin m) :
    HasDerivAt (fun t : ℂ => permSpec (bump A i j t) rows cols)
      ((rows i : ℂ) * (cols j : ℂ) * permSpec A (decRow rows i) (decRow cols j)) 0 :=
  Pq.GradLaws.perm_grad A rows cols i j

theorem disp_grad_r (m n : ℕ) (r φ : ℝ) :
    HasDerivAt (fun x : ℝ => dispEntry m n x φ)
      (-(r : ℂ) * dispEntry m n r φ
        + Complex.exp (Complex.I * φ) * (Real.sqrt m : ℂ) * dispEntry (m - 1) n r φ
        - Complex.exp (-(Complex.I * φ)) * (Real.sqrt n : ℂ) * dispEntry m (n - 1) r φ) r :=
  Pq.GradLaws.disp_grad_r m n r φ

theorem disp_grad_phi (m n : ℕ) (r φ : ℝ) :
    HasDerivAt (fun x : ℝ => dispEntry m n r x)
      (Complex.I * (r : ℂ) *
        (Complex.exp (Complex.I * φ) * (Real.sqrt m : ℂ) * dispEntry (m - 1) n r φ
          + Complex.exp (-(Complex.I * φ)) * (Real.sqrt n : ℂ) * dispEntry m (n - 1) r φ)) φ :=
  Pq.GradLaws.disp_grad_phi m n r φ

theorem disp_loop_closed_form (c : ℕ) (r φ : ℝ) (m n : ℕ) :
    Pq.DispRec.entry c r φ m n = dispEntry m n r φ :=
  Pq.DispRec.entry_eq_dispEntry c r φ m n

open Pq.SqueezeRec in
theorem sq_loop_closed_form (c : ℕ) (r φ : ℝ) (m n : ℕ) : Pq.SqueezeRec.entry c r φ m n = sqEntry m n r φ :=
  Pq.SqueezeRec.sq_loop_closed_form c r φ m n

open Pq.SqueezeRec in
theorem sq_grad_phi (m n : ℕ) (r φ : ℝ) :
    HasDerivAt (fun x : ℝ => sqEntry m n r x)
      (-(Complex.I / 2) * (Real.tanh r : ℂ) *
        (Complex.exp (Complex.I * φ) * (Real.sqrt ((m : ℝ) * ((m : ℝ) - 1)) : ℂ) * sqEntry (m - 2) n r φ
          + Complex.exp (-(Complex.I * φ)) * (Real.sqrt ((n : ℝ) * ((n : ℝ) - 1)) : ℂ) * sqEntry m (n - 2) r φ)) φ :=
  Pq.SqueezeRec.sq_grad_phi m n r φ

open Pq.SqueezeRec in
theorem sq_grad_r (m n : ℕ) (r φ : ℝ) :
    HasDerivAt (fun x : ℝ => sqEntry m n x φ)
      (-((Real.tanh r : ℂ) / 2) * sqEntry m n r φ
        - ((1 / Real.cosh r : ℝ) : ℂ) * (Real.tanh r : ℂ) * (Real.sqrt ((m : ℝ) * (n : ℝ)) : ℂ)
            * sqEntry (m - 1) (n - 1) r φ
        - (((1 / Real.cosh r : ℝ) : ℂ) ^ 2 / 2) *
          (Complex.exp (Complex.I * φ) * (Real.sqrt ((m : ℝ) * ((m : ℝ) - 1)) : ℂ) * sqEntry (m - 2) n r φ
            - Complex.exp (-(Complex.I * φ)) * (Real.sqrt ((n : ℝ) * ((n : ℝ) - 1)) : ℂ) * sqEntry m (n - 2) r φ)) r :=
  Pq.SqueezeRec.sq_grad_r m n r φ

theorem sqrtm_vjp {n : Type} [Fintype n] [DecidableEq n] (P X dM Y G : Matrix n n ℂ)
    (hX : P * X + X * P = dM) (hY : Pᴴ * Y + Y * Pᴴ = G) :
    Matrix.trace (Yᴴ * dM) = Matrix.trace (Gᴴ * X) :=
  Pq.ShimLaws.sqrtm_vjp P X dM Y G hX hY

end Pq.C10
