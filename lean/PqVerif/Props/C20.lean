import PqVerif.Lemmas.ExprSem
import PqVerif.Gen.ExprTables

/-!
# C20 — condition and parameter expressions are safe and mean what Python means

`validate` / `eval` / `construct` / `run` model `Expression._validate`, `_eval`, `__init__`,
`__call__` of piquasso/core/_expressions.py; `pyEval` models Python's evaluation rules;
`Gen.ExprTables` is regenerated from the module on every run.
-/
namespace Pq.C20
open Pq.Expr

/-- **accepted only if in the grammar, and everything in the grammar is accepted** -/
theorem validate_iff_inGrammar (e : Ast) : validate e = true ↔ InGrammar e :=
  Pq.Expr.validate_iff_inGrammar e

theorem construct_accepts (e : Ast) (h : InGrammar e) : construct e = .ok e := by
  unfold construct
  rw [(Pq.Expr.validate_iff_inGrammar e).2 h]; rfl

/-- anything else (names, calls, attributes, comprehensions, strings, …) is rejected at construction -/
theorem construct_rejects (e : Ast) (h : ¬ InGrammar e) : construct e = .error .invalidExpression := by
  unfold construct
  have : validate e = false := by
    cases hv : validate e with
    | false => rfl
    | true => exact absurd ((Pq.Expr.validate_iff_inGrammar e).1 hv) h
  rw [this]; rfl

/-- … **without being evaluated**: the outcome does not depend on the primitives or on `x`
(`construct` has no access to either), so no operator, index or comparison is ever applied -/
theorem run_rejects_without_evaluating (P : Prims) (e : Ast) (x : Val) (h : ¬ InGrammar e) :
    run P e x = .error .invalidExpression := by
  unfold run
  rw [construct_rejects e h]; rfl

/-- **every accepted expression evaluates to exactly the value Python would give**, including
short-circuit and chained-comparison semantics, for any primitives whose comparisons return
booleans -/
theorem eval_eq_pyEval (P : Prims) (hP : CmpBool P) (x : Val) (e : Ast) (h : InGrammar e) :
    eval P x e = pyEval P x e :=
  Pq.Expr.eval_eq_pyEval P hP x e h

theorem pyPrims_cmpBool : CmpBool pyPrims := Pq.Expr.pyPrims_cmpBool

/-- the end-to-end statement for Python's own operators -/
theorem run_eq_python (x : Val) (e : Ast) (h : InGrammar e) :
    run pyPrims e x = pyEval pyPrims x e := by
  unfold run
  rw [construct_accepts e h]
  exact Pq.Expr.eval_eq_pyEval pyPrims Pq.Expr.pyPrims_cmpBool x e h

/-- **translator obligation**: the operator tables and the node whitelist of the module, as
dumped on this run, are exactly the ones the model's `binopAllowed` … encode -/
theorem tables_match_source :
    Pq.Gen.ExprTables.binops =
      [("Add", "add"), ("BitXor", "xor"), ("Div", "truediv"), ("Mod", "mod"), ("Mult", "mul"),
       ("Pow", "pow"), ("Sub", "sub")] ∧
    Pq.Gen.ExprTables.unaryops = [("Not", "not_"), ("UAdd", "pos"), ("USub", "neg")] ∧
    Pq.Gen.ExprTables.boolops = [("And", "all"), ("Or", "any")] ∧
    Pq.Gen.ExprTables.cmpops =
      [("Eq", "eq"), ("Gt", "gt"), ("GtE", "ge"), ("Lt", "lt"), ("LtE", "le"), ("NotEq", "ne")] ∧
    Pq.Gen.ExprTables.allowed =
      ["Add", "And", "BinOp", "BitXor", "BoolOp", "Compare", "Constant", "Div", "Eq",
       "Expression", "Gt", "GtE", "Index", "List", "Load", "Lt", "LtE", "Mod", "Mult", "Name",
       "Not", "NotEq", "Or", "Pow", "Slice", "Sub", "Subscript", "Tuple", "UAdd", "USub",
       "UnaryOp"] := by
  decide

/-- non-vacuity: `x[0] == 1 and not x[1] < 2 <= 3` is in the grammar -/
example : InGrammar
    (.boolop .and [.compare (.subscript (.name "x") (.const (.int 0))) [.eq] [.const (.int 1)],
      .unary .not (.compare (.subscript (.name "x") (.const (.int 1))) [.lt, .le]
        [.const (.int 2), .const (.int 3)])]) :=
  (Pq.Expr.validate_iff_inGrammar _).1 (by decide)

/-- and a call is not -/
example : ¬ InGrammar (.forbidden "Call" [.name "x"]) :=
  fun h => by have := (Pq.Expr.validate_iff_inGrammar _).2 h; revert this; decide

end Pq.C20
