import PqVerif.Lemmas.EngineInv
import PqVerif.Gen.SimTables

/-!
# C13 — invalid programs are rejected up front; valid ones are never refused (by the engine)

`validateRequest` / `validateAll` model the checks of `Simulator.execute_instructions` in the
order of the code; `WellFormed` is the declarative list of rules of the property statement.
`Gen.SimTables` is regenerated from the simulator classes on every run.
What the theorems cannot cover is stated in DESIGN.md: that every *numerical* simulation step
accepts every well-formed program (checked on the real simulators for cutoffs 1..5).
-/
namespace Pq.C13
open Pq.Engine

variable {σ : Type}

/-- the structural checks accept exactly the well-formed requests -/
theorem validate_ok_iff_wellFormed (spec : SimSpec) (simD : Option Nat) (is : List Instr)
    (shots : ShotsArg) (init : InitArg) (d : Nat) :
    validateRequest spec simD is shots init = .ok d ↔ WellFormed spec simD is shots init d :=
  Pq.Engine.validate_ok_iff_wellFormed spec simD is shots init d

/-- … and with the documented parameter errors of outcome-independent instructions -/
theorem validateAll_ok_iff (spec : SimSpec) (pval : ParamCheck) (simD : Option Nat)
    (is : List Instr) (shots : ShotsArg) (init : InitArg) (d : Nat) :
    validateAll spec pval simD is shots init = .ok d ↔
      (WellFormed spec simD is shots init d ∧
        ∀ i ∈ is, isResolved i = true → pval i.cls (constParams i) = .ok ()) :=
  Pq.Engine.validateAll_ok_iff spec pval simD is shots init d

/-- an invalid request raises before any evolution: no step is called, nothing is written,
no result is returned -/
theorem reject_before_step (spec : SimSpec) (oracle : Oracle σ) (pval : ParamCheck)
    (simD : Option Nat) (is : List Instr) (shots : ShotsArg) (init : InitArg) (st0 : σ) (e : Err)
    (w : World σ) (h : validateAll spec pval simD is shots init = .error e) :
    (execute spec oracle pval simD is shots init st0).run.run w = (.error e, w) :=
  Pq.Engine.reject_before_step spec oracle pval simD is shots init st0 e w h

/-- a well-formed request is not refused by the validation chain: execution proper starts -/
theorem accepted_runs_reach_steps (spec : SimSpec) (oracle : Oracle σ) (pval : ParamCheck)
    (simD : Option Nat) (is : List Instr) (shots : ShotsArg) (init : InitArg) (st0 : σ) (d : Nat)
    (w : World σ) (h : validateAll spec pval simD is shots init = .ok d) :
    (execute spec oracle pval simD is shots init st0).run.run w =
      (execLoop oracle pval shots.toOpt 0 is (List.range d)
        [{ state := if d = 0 then none else some st0, outcome := [], freq := 1 }]).run.run w :=
  Pq.Engine.accepted_reaches_execution spec oracle pval simD is shots init st0 d w h

open Pq.Gen.SimTables in
/-- **translator obligation** on the tables read from the simulator classes on this run:
mid-circuit and shots=None allowances are measurements the simulator implements, preparations and
measurements are implemented instructions, and declared arities are positive -/
theorem tables_sane :
    ∀ t ∈ Pq.Gen.SimTables.all,
      (∀ c ∈ t.midCircuit, c ∈ t.meas) ∧ (∀ c ∈ t.shotsNone, c ∈ t.meas) ∧
      (∀ c ∈ t.meas, c ∈ t.supported) ∧ (∀ c ∈ t.preps, c ∈ t.supported) ∧
      (∀ p ∈ t.arity, p.1 ∈ t.supported ∧ 0 < p.2) ∧ t.supported.Nodup := by
  decide

end Pq.C13
