import PqVerif.Lemmas.ProgramLaws
import PqVerif.Gen.BBTable

/-!
# C18 — program construction is faithful: nesting, Blackbird operations, preparation algebra

Models: `Model/Program.lean`.  `Gen.BBTable` is regenerated on every run from
`core/_blackbird.py`, `inspect.signature` and a live instance of every exportable class.
The text layer of the `blackbird` library and Python's `repr`/`exec` (used by `as_code`) are
not modelled: those round trips are exercised on the real code by the check.
-/
namespace Pq.C18
open Pq.Program

/-- registering a program inside another maps its modes through the enclosing register exactly
once: two nested registrations equal one registration through the composed register -/
theorem mapModes_comp (R1 R2 modes : List Nat) (h : ∀ m ∈ modes, m < R2.length)
    (h2 : ∀ m ∈ R2, R1 = [] ∨ m < R1.length) :
    mapModes R1 (mapModes R2 modes) = mapModes (mapModes R1 R2) modes :=
  Pq.Program.mapModes_comp R1 R2 modes h h2

theorem register_comp {α} (R1 R2 : List Nat) (p q : List (RInstr α))
    (h : ∀ i ∈ p, ∀ m ∈ i.modes, m < R2.length) (h2 : ∀ m ∈ R2, R1 = [] ∨ m < R1.length) :
    register R1 (register R2 p []) q = register (mapModes R1 R2) p q :=
  Pq.Program.register_comp R1 R2 p q h h2

/-- every inner instruction is appended once, in order; the inner program is a value and is not
changed (it stays reusable) -/
theorem register_spec {α} (R : List Nat) (p q : List (RInstr α)) :
    register R p q = q ++ p.map (fun i => { i with modes := mapModes R i.modes }) ∧
    (register R p q).length = q.length + p.length :=
  Pq.Program.register_spec R p q

/-- Blackbird operation round trip for any class table that is consistent -/
theorem bb_roundtrip {β} (tbl : List (ClsInfo β)) (hT : TableOK tbl) (i : BInstr β)
    (c : ClsInfo β) (hc : c ∈ tbl) (hcls : i.cls = c.pq) (hkeys : i.params.map (·.1) = c.paramKeys) :
    (toBB tbl i).bind (fromBB tbl) = some i :=
  Pq.Program.bb_roundtrip tbl hT i c hc hcls hkeys

/-- **translator obligation**: the table read from the code on this run is consistent
(names unique, and for every exportable class the key order of `instruction.params` is the
order of the constructor signature — the condition under which positional export/import is faithful) -/
theorem bb_table_ok : TableOK Pq.Gen.BBTable.table ∧
    ∀ p ∈ Pq.Gen.BBTable.storesArguments, p.2 = true := by
  refine ⟨⟨by decide, by decide, by decide⟩, by decide⟩

/-- hence every instruction of an exportable class survives export + import with the same type,
modes and parameter values (values are opaque: here their exact `float.hex` strings) -/
theorem bb_roundtrip_generated (i : BInstr String) (c : ClsInfo String)
    (hc : c ∈ Pq.Gen.BBTable.table) (hcls : i.cls = c.pq)
    (hkeys : i.params.map (·.1) = c.paramKeys) :
    (toBB Pq.Gen.BBTable.table i).bind (fromBB Pq.Gen.BBTable.table) = some i :=
  Pq.Program.bb_roundtrip _ bb_table_ok.1 i c hc hcls hkeys

variable {K : Type} [Field K]

/-- `+` denotes the sum of the superpositions -/
theorem amp_add (a b : Prep K) (ha : a.WF) (hb : b.WF) (k : Occ) :
    (a.add b).amp k = a.amp k + b.amp k :=
  Pq.Program.amp_add a b ha hb k

theorem amp_smul (c : K) (a : Prep K) (k : Occ) : (a.smul c).amp k = a.amp k * c :=
  Pq.Program.amp_smul c a k

theorem amp_sdiv (c : K) (a : Prep K) (k : Occ) : (a.sdiv c).amp k = a.amp k / c :=
  Pq.Program.amp_sdiv c a k

/-- the same superposition whatever the order … -/
theorem add_comm_amp (a b : Prep K) (ha : a.WF) (hb : b.WF) (k : Occ) :
    (a.add b).amp k = (b.add a).amp k := by
  rw [Pq.Program.amp_add a b ha hb, Pq.Program.amp_add b a hb ha, add_comm]

/-- … or grouping of the operands -/
theorem add_assoc_amp (a b c : Prep K) (ha : a.WF) (hb : b.WF) (hc : c.WF) (k : Occ) :
    ((a.add b).add c).amp k = (a.add (b.add c)).amp k := by
  rw [Pq.Program.amp_add _ c (add_wf a b ha hb) hc, Pq.Program.amp_add a b ha hb,
    Pq.Program.amp_add a _ ha (add_wf b c hb hc), Pq.Program.amp_add b c hb hc, add_assoc]

/-- scalars distribute -/
theorem smul_add_amp (s : K) (a b : Prep K) (ha : a.WF) (hb : b.WF) (k : Occ) :
    ((a.add b).smul s).amp k = ((a.smul s).add (b.smul s)).amp k := by
  rw [Pq.Program.amp_smul, Pq.Program.amp_add a b ha hb,
    Pq.Program.amp_add _ _ (smul_wf s a ha) (smul_wf s b hb), Pq.Program.amp_smul,
    Pq.Program.amp_smul, add_mul]

/-- non-vacuity: the formerly failing expression, over ℚ -/
example : ((Prep.number [1, 0] (1 : ℚ)).add (((Prep.number [0, 1] 1).add (Prep.number [2, 0] 1)).smul 2)).amp [0, 1] = 2 := by
  simp [Prep.add, Prep.smul, Prep.amp, scaleMap, AMap.get?, AMap.prepend]

end Pq.C18
