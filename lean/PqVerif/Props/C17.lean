import PqVerif.Lemmas.FermiRepLaws
import PqVerif.Lemmas.CauchyBinet
import PqVerif.Lemmas.FermiGatesLaws
import PqVerif.Lemmas.FermiGaussLaws

/-!
# C17 — the fermionic simulators agree with each other and with exclusion (partial)

Proved, for every number of modes, every matrix and every input:
* Fock side: the Laplace recursion of `calculate_interferometer_on_fermionic_fock_space` computes the
  minors `det U[R, C]` (Slater determinants): no amplitude between different particle numbers, zero
  amplitude for a repeated mode (exclusion); by Cauchy–Binet (proved here, not in Mathlib) the blocks are
  multiplicative and the blocks of a unitary are unitary, so probabilities sum to one after any passive gate
  for every input state; Ising-XX / two-mode squeezing / controlled phase move amplitude only between 0/1
  labels of equal parity and their pair updates are norm preserving; passive gates keep the particle number.
* Gaussian side: `(D, E)` and the Majorana covariance matrix determine each other; a passive gate on
  `(D, E)` is the orthogonal congruence `Γ ↦ O Γ Oᵀ` with `O = [[X, -Y], [Y, X]]`; every gate is an
  orthogonal congruence, which keeps `Γ` skew-symmetric and `Γ Γᵀ = 1`; number states are `D = diag n`.
NOT proved: that the Gaussian overlap formula `sqrt det((1 - Γ Γ_n)/2)` equals the Fock-space probability,
and that `expm(-4h)` is the orthogonal matrix of `exp(i Ĥ)` (spin representation) — these are compared on
the real simulators (cross-simulator search), not in the model.
-/
namespace Pq.C17
open Matrix BigOperators Pq.FermiRep Pq.FermiGates Pq.FermiGauss Pq.CauchyBinet

/-! ## Fock side -/

theorem fermiRep_eq_det {K : Type} [CommRing K] {d n : Nat} (U : Fin d → Fin d → K) (R C : Fin n → Fin d) :
    fermiRep (matList' U) ((List.finRange n).map (fun i => (R i).val)) ((List.finRange n).map (fun j => (C j).val)) =
      (Matrix.of fun i j => U (R i) (C j)).det :=
  Pq.FermiRep.fermiRep_eq_det U R C

/-- the block the simulator builds is the compound matrix: entry `(R, C)` over `k`-subsets -/
theorem fermiRep_eq_compound {K : Type} [CommRing K] {d k : Nat} (U : Matrix (Fin d) (Fin d) K)
    (R C : {S : Finset (Fin d) // S.card = k}) :
    fermiRep (matList' (fun i j => U i j)) ((List.finRange k).map (fun i => (enum R i).val))
      ((List.finRange k).map (fun j => (enum C j).val)) = compound k U R C := by
  rw [Pq.FermiRep.fermiRep_eq_det]; rfl

theorem number_conserved {K : Type} [CommRing K] {d : Nat} (U : Fin d → Fin d → K) (R C : List Nat)
    (h : R.length ≠ C.length) : fermiRep (matList' U) R C = 0 :=
  Pq.FermiRep.fermiRep_length_mismatch U R C h

theorem exclusion {K : Type} [CommRing K] {d n : Nat} (U : Fin d → Fin d → K) (R C : Fin n → Fin d)
    (i j : Fin n) (hij : i ≠ j) (h : R i = R j) :
    fermiRep (matList' U) ((List.finRange n).map (fun i => (R i).val)) ((List.finRange n).map (fun j => (C j).val)) = 0 :=
  Pq.FermiRep.fermiRep_repeated_row U R C i j hij h

theorem cauchy_binet {K : Type} [CommRing K] {m n : Nat} (A : Matrix (Fin m) (Fin n) K) (B : Matrix (Fin n) (Fin m) K) :
    (A * B).det = ∑ S : {S : Finset (Fin n) // S.card = m},
      (A.submatrix id (enum S)).det * (B.submatrix (enum S) id).det :=
  Pq.CauchyBinet.cauchy_binet A B

/-- composing gates = multiplying blocks, in every particle-number sector -/
theorem blocks_multiplicative {K : Type} [CommRing K] {n : Nat} (k : Nat) (A B : Matrix (Fin n) (Fin n) K) :
    compound k (A * B) = compound k A * compound k B :=
  Pq.CauchyBinet.compound_mul k A B

/-- every block of a unitary is unitary: probabilities sum to one after a passive gate, for every input state -/
theorem blocks_unitary {n : Nat} (k : Nat) (U : Matrix (Fin n) (Fin n) ℂ) (hU : U ∈ Matrix.unitaryGroup (Fin n) ℂ) :
    compound k U ∈ Matrix.unitaryGroup _ ℂ :=
  Pq.CauchyBinet.compound_unitary k U hU

theorem ising_parity (s : List Nat) (a b : Nat) (hab : a ≠ b) (ha : a < s.length) (hb : b < s.length)
    (hs : isBits s = true) : ∀ t ∈ isingTargets s a b, parity t = parity s ∧ isBits t = true ∧ t.length = s.length :=
  Pq.FermiGates.ising_parity s a b hab ha hb hs

theorem sq2_parity (s : List Nat) (a b : Nat) (hab : a ≠ b) (ha : a < s.length) (hb : b < s.length)
    (hs : isBits s = true) : ∀ t ∈ sq2Targets s a b, parity t = parity s ∧ isBits t = true ∧ t.length = s.length :=
  Pq.FermiGates.sq2_parity s a b hab ha hb hs

theorem passive_number (s : List Nat) (modes : List Nat) (hm : modes.Nodup) (hlt : ∀ m ∈ modes, m < s.length) :
    ∀ t ∈ passiveTargets s modes, t.sum = s.sum ∧ isBits t = true ∧ t.length = s.length :=
  Pq.FermiGates.passive_number s modes hm hlt

theorem isingPair_norm (c s : ℝ) (h : c ^ 2 + s ^ 2 = 1) (x y : ℂ) :
    Complex.normSq (isingPair (c : ℂ) (Complex.I * s) x y).1 + Complex.normSq (isingPair (c : ℂ) (Complex.I * s) x y).2
      = Complex.normSq x + Complex.normSq y :=
  Pq.FermiGates.isingPair_norm c s h x y

theorem sq2Pair_norm (c s : ℝ) (e : ℂ) (h : c ^ 2 + s ^ 2 = 1) (he : Complex.normSq e = 1) (x y : ℂ) :
    let p := sq2Pair (c : ℂ) (s * (starRingEnd ℂ) e) (-(s * e)) (c : ℂ) x y
    Complex.normSq p.1 + Complex.normSq p.2 = Complex.normSq x + Complex.normSq y :=
  Pq.FermiGates.sq2Pair_norm c s e h he x y

/-! ## Gaussian side -/

variable {F : Type} [Field F] [CharZero F] {d : Nat}

theorem representation_roundtrip (s : FRep F d) (cov : Matrix (Fin d ⊕ Fin d) (Fin d ⊕ Fin d) F) :
    setXxppCov (xxppCov s) = s ∧ xxppCov (setXxppCov cov) = cov :=
  ⟨set_get s, get_set cov⟩

theorem passive_is_congruence (X Y : Matrix (Fin d) (Fin d) F) (hu1 : X * Xᵀ + Y * Yᵀ = 1)
    (hu2 : X * Yᵀ = Y * Xᵀ) (s : FRep F d) :
    xxppCov (passive X Y s) = passiveO X Y * xxppCov s * (passiveO X Y)ᵀ ∧
      passiveO X Y * (passiveO X Y)ᵀ = 1 :=
  ⟨Pq.FermiGauss.passive_is_congruence X Y hu1 hu2 s, passiveO_orthogonal X Y hu1 hu2⟩

/-- every gate of the Gaussian simulator keeps the covariance matrix skew-symmetric and pure -/
theorem gate_keeps_valid (O : Matrix (Fin d ⊕ Fin d) (Fin d ⊕ Fin d) F) (hO : O * Oᵀ = 1) (s : FRep F d)
    (hs : (xxppCov s)ᵀ = -xxppCov s) (hp : xxppCov s * (xxppCov s)ᵀ = 1) :
    (xxppCov (applySO O s))ᵀ = -xxppCov (applySO O s) ∧
      xxppCov (applySO O s) * (xxppCov (applySO O s))ᵀ = 1 := by
  rw [applySO_cov]
  exact ⟨congr_skew O _ hs, congr_pure O _ hO hp⟩

theorem number_state (n : Fin d → F) (h : ∀ i, n i = 0 ∨ n i = 1) :
    occState n = { Dr := Matrix.diagonal n, Di := 0, Er := 0, Ei := 0 } ∧
      (occCov n)ᵀ = -occCov n ∧ occCov n * (occCov n)ᵀ = 1 ∧ ∀ i, meanNumber (occState n) i = n i :=
  ⟨occState_eq n, occCov_skew n, occCov_pure n h, occState_meanNumber n⟩

/-! non-vacuity: concrete instances of the hypotheses -/
example : isBits [0, 1, 1, 0] = true ∧ (1 : Nat) ≠ 2 := by decide
example : (1 : Matrix (Fin 2) (Fin 2) ℂ) ∈ Matrix.unitaryGroup (Fin 2) ℂ := one_mem _

end Pq.C17
