import Mathlib.Tactic
import PqVerif.Model.Rng

/-! C11 (seeding half): a freshly created simulator's samples depend only on its seed. -/
namespace Pq.C11
open Pq.Rng

/-- the scenario of the property: arbitrary history `pre`, then `Config(seed)`, a simulator on it,
arbitrary foreign activity `mid` (global `random` use, other Configs, copies, other simulators'
executions that do not touch the new objects), then one sampling execution -/
def scenario (pre : List Op) (seed : Nat) (mid : List Op) (draws : Nat) (py : Bool) (w : World) :
    List Draw :=
  let (w1, _) := run w pre
  let c := w1.cfgs.length
  let s := w1.sims.length
  let (w2, _) := run w1 [.newConfig (some seed), .newSim c]
  let (w3, _) := run w2 mid
  (step w3 (.exec s draws py)).2

/-- foreign activity: anything except executing the new simulator `s` or a simulator sharing its
generators (which the user did not create: only `newSim`/`copyConfig` of OTHER configs appear) -/
def Foreign (newCfg newSim : Nat) : Op → Prop
  | .newConfig _ => True
  | .copyConfig c => c < newCfg
  | .newSim c => c < newCfg
  | .exec sim _ _ => sim < newSim
  | .foreignRandom _ => True
  | .foreignSeed _ => True
  | .reseed c _ => c < newCfg

/-- well-formed worlds: indices stored in configs / simulators are in range, and configs created
before point to generators created before (the model's `step` preserves this) -/
def WF (w : World) : Prop :=
  (∀ c ∈ w.cfgs, c.npGen < w.gens.length ∧ c.pyGen < w.gens.length) ∧
  (∀ s ∈ w.sims, s < w.cfgs.length)

theorem step_wf (w : World) (op : Op) (h : WF w) : WF (step w op).1 := by
  obtain ⟨hc, hs⟩ := h
  cases op with
  | newConfig seed =>
    cases seed <;>
    · refine ⟨?_, ?_⟩
      · intro c hcm
        simp only [step, List.mem_append, List.mem_singleton, List.length_append] at hcm ⊢
        rcases hcm with hcm | rfl
        · have := hc c hcm; simp; omega
        · simp
      · intro s hsm
        simp only [step, List.length_append] at hsm ⊢
        have := hs s hsm; omega
  | copyConfig c =>
    simp only [step]
    cases hcc : w.cfgs[c]? with
    | none => exact ⟨hc, hs⟩
    | some cfg =>
      refine ⟨?_, ?_⟩
      · intro c' hcm
        simp only [List.mem_append, List.mem_singleton] at hcm
        rcases hcm with hcm | rfl
        · exact hc c' hcm
        · exact hc c' (List.mem_of_getElem? hcc)
      · intro s hsm
        simp only [List.length_append] at hsm ⊢
        have := hs s hsm; omega
  | newSim c =>
    simp only [step]
    cases hcc : w.cfgs[c]? with
    | none => exact ⟨hc, hs⟩
    | some cfg =>
      refine ⟨?_, ?_⟩
      · intro c' hcm
        simp only [List.mem_append, List.mem_singleton] at hcm
        rcases hcm with hcm | rfl
        · exact hc c' hcm
        · exact hc c' (List.mem_of_getElem? hcc)
      · intro s hsm
        simp only [List.length_append, List.mem_append, List.mem_singleton] at hsm ⊢
        rcases hsm with hsm | rfl
        · have := hs s hsm; omega
        · simp
  | exec sim draws py =>
    cases hs1 : w.sims[sim]? with
    | none => simp only [step, hs1]; exact ⟨hc, hs⟩
    | some c =>
      cases hc1 : w.cfgs[c]? with
      | none => simp only [step, hs1, hc1]; exact ⟨hc, hs⟩
      | some cfg =>
        cases hg1 : w.gens[if py then cfg.pyGen else cfg.npGen]? with
        | none => simp only [step, hs1, hc1, hg1]; exact ⟨hc, hs⟩
        | some g =>
          simp only [step, hs1, hc1, hg1]
          refine ⟨?_, hs⟩
          intro c' hcm
          simp only [List.length_set]
          exact hc c' hcm
  | foreignRandom n => exact ⟨hc, hs⟩
  | foreignSeed s => exact ⟨hc, hs⟩
  | reseed c seed =>
    simp only [step]
    split
    · refine ⟨?_, ?_⟩
      · intro c' hcm
        simp only [List.length_append, List.length_cons, List.length_nil]
        rcases List.mem_or_eq_of_mem_set hcm with hcm | rfl
        · have := hc c' hcm; omega
        · simp
      · intro s hsm
        simp only [List.length_set]
        exact hs s hsm
    · exact ⟨hc, hs⟩

theorem run_wf (w : World) (ops : List Op) (h : WF w) : WF (run w ops).1 := by
  induction ops generalizing w with
  | nil => exact h
  | cons op ops ih =>
    simp only [run]
    exact ih _ (step_wf w op h)

/-- invariant kept by foreign activity -/
def Inv (g c s seed : Nat) (w : World) : Prop :=
  w.gens[g]? = some ⟨seed, 0⟩ ∧ w.gens[g + 1]? = some ⟨seed, 0⟩ ∧
  w.cfgs[c + 1]? = some ⟨g, g + 1⟩ ∧ w.sims[s]? = some (c + 1) ∧
  (∀ i < c, ∀ cfg, w.cfgs[i]? = some cfg →
    cfg.npGen ≠ g ∧ cfg.npGen ≠ g + 1 ∧ cfg.pyGen ≠ g ∧ cfg.pyGen ≠ g + 1) ∧
  (∀ i < s, ∀ k, w.sims[i]? = some k → k < c)

theorem getElem?_append_some {α} (l l' : List α) (i : Nat) (a : α) (h : l[i]? = some a) :
    (l ++ l')[i]? = some a := by
  obtain ⟨hi, rfl⟩ := List.getElem?_eq_some_iff.1 h
  rw [List.getElem?_append_left hi]; exact h

theorem getElem?_append_lt {α} (l l' : List α) (i n : Nat) (a : α) (h : l[n]? = some a)
    (hin : i < n) : (l ++ l')[i]? = l[i]? := by
  obtain ⟨hi, _⟩ := List.getElem?_eq_some_iff.1 h
  exact List.getElem?_append_left (by omega)

theorem step_inv (g c s seed : Nat) (w : World) (op : Op) (h : Inv g c s seed w)
    (hf : Foreign c s op) : Inv g c s seed (step w op).1 := by
  obtain ⟨h1, h2, h3, h4, h5, h6⟩ := h
  cases op with
  | newConfig sd =>
    cases sd <;>
    · refine ⟨?_, ?_, ?_, h4, ?_, h6⟩
      · exact getElem?_append_some _ _ _ _ h1
      · exact getElem?_append_some _ _ _ _ h2
      · exact getElem?_append_some _ _ _ _ h3
      · intro i hi cfg hcfg
        simp only [step] at hcfg
        rw [getElem?_append_lt _ _ i (c + 1) _ h3 (by omega)] at hcfg
        exact h5 i hi cfg hcfg
  | copyConfig c' =>
    cases hcc : w.cfgs[c']? with
    | none => simp only [step, hcc]; exact ⟨h1, h2, h3, h4, h5, h6⟩
    | some cfg0 =>
      simp only [step, hcc]
      refine ⟨h1, h2, getElem?_append_some _ _ _ _ h3, h4, ?_, h6⟩
      intro i hi cfg hcfg
      simp only at hcfg
      rw [getElem?_append_lt _ _ i (c + 1) _ h3 (by omega)] at hcfg
      exact h5 i hi cfg hcfg
  | newSim c' =>
    cases hcc : w.cfgs[c']? with
    | none => simp only [step, hcc]; exact ⟨h1, h2, h3, h4, h5, h6⟩
    | some cfg0 =>
      simp only [step, hcc]
      refine ⟨h1, h2, getElem?_append_some _ _ _ _ h3, getElem?_append_some _ _ _ _ h4, ?_, ?_⟩
      · intro i hi cfg hcfg
        simp only at hcfg
        rw [getElem?_append_lt _ _ i (c + 1) _ h3 (by omega)] at hcfg
        exact h5 i hi cfg hcfg
      · intro i hi k hk
        simp only at hk
        rw [getElem?_append_lt _ _ i s _ h4 hi] at hk
        exact h6 i hi k hk
  | exec sim draws py =>
    have hf' : sim < s := hf
    cases hs1 : w.sims[sim]? with
    | none => simp only [step, hs1]; exact ⟨h1, h2, h3, h4, h5, h6⟩
    | some k =>
      cases hc1 : w.cfgs[k]? with
      | none => simp only [step, hs1, hc1]; exact ⟨h1, h2, h3, h4, h5, h6⟩
      | some cfg =>
        cases hg1 : w.gens[if py then cfg.pyGen else cfg.npGen]? with
        | none => simp only [step, hs1, hc1, hg1]; exact ⟨h1, h2, h3, h4, h5, h6⟩
        | some gg =>
          simp only [step, hs1, hc1, hg1]
          have hk := h6 sim hf' k hs1
          have hgi := h5 k hk cfg hc1
          have hlt : (if py then cfg.pyGen else cfg.npGen) ≠ g ∧
              (if py then cfg.pyGen else cfg.npGen) ≠ g + 1 := by
            split <;> omega
          refine ⟨?_, ?_, h3, h4, h5, h6⟩
          · rw [List.getElem?_set_ne hlt.1]; exact h1
          · rw [List.getElem?_set_ne hlt.2]; exact h2
  | foreignRandom n => exact ⟨h1, h2, h3, h4, h5, h6⟩
  | foreignSeed s' => exact ⟨h1, h2, h3, h4, h5, h6⟩
  | reseed c' sd =>
    have hf' : c' < c := hf
    simp only [step]
    split
    · have hg : g + 1 < w.gens.length := (List.getElem?_eq_some_iff.1 h2).1
      refine ⟨getElem?_append_some _ _ _ _ h1, getElem?_append_some _ _ _ _ h2, ?_, h4, ?_, h6⟩
      · simp only
        rw [List.getElem?_set_ne (by omega)]; exact h3
      · intro i hi cfg hcfg
        simp only at hcfg
        by_cases hic : c' = i
        · subst hic
          rw [List.getElem?_set_self (by assumption)] at hcfg
          cases hcfg
          simp only
          omega
        · rw [List.getElem?_set_ne hic] at hcfg
          exact h5 i hi cfg hcfg
    · exact ⟨h1, h2, h3, h4, h5, h6⟩

theorem run_inv (g c s seed : Nat) (w : World) (ops : List Op) (h : Inv g c s seed w)
    (hf : ∀ op ∈ ops, Foreign c s op) : Inv g c s seed (run w ops).1 := by
  induction ops generalizing w with
  | nil => exact h
  | cons op ops ih =>
    simp only [run]
    exact ih _ (step_inv g c s seed w op h (hf op (by simp)))
      (fun o ho => hf o (by simp [ho]))

/-- the two creation steps establish the invariant -/
theorem create_inv (seed : Nat) (w1 : World) (hw : WF w1) :
    Inv w1.gens.length w1.cfgs.length w1.sims.length seed
      (run w1 [.newConfig (some seed), .newSim w1.cfgs.length]).1 := by
  obtain ⟨hc, hs⟩ := hw
  simp only [run, step, List.getElem?_append_right (Nat.le_refl _), Nat.sub_self,
    List.getElem?_cons_zero]
  refine ⟨?_, ?_, ?_, ?_, ?_, ?_⟩
  · simp
  · simp
  · simp
  · simp
  · intro i hi cfg hcfg
    simp only [List.append_assoc] at hcfg
    rw [List.getElem?_append_left hi] at hcfg
    have := hc cfg (List.mem_of_getElem? hcfg)
    omega
  · intro i hi k hk
    simp only at hk
    rw [List.getElem?_append_left hi] at hk
    exact hs k (List.mem_of_getElem? hk)

theorem exec_inv (g c s seed draws : Nat) (py : Bool) (w : World) (h : Inv g c s seed w) :
    (step w (.exec s draws py)).2 = (List.range draws).map (fun i => (seed, i)) := by
  obtain ⟨h1, h2, h3, h4, _, _⟩ := h
  cases py <;> simp [step, h4, h3, h1, h2, drawN]

/-- **seeded runs are reproducible**: the draws of the fresh simulator are exactly the first
`draws` values of the stream of its seed — whatever happened before (`pre`) and in between (`mid`) -/
theorem fresh_simulator_draws (pre mid : List Op) (seed draws : Nat) (py : Bool) (w : World)
    (hw : WF w)
    (hmid : ∀ op ∈ mid, Foreign ((run w pre).1.cfgs.length) ((run w pre).1.sims.length) op) :
    scenario pre seed mid draws py w = (List.range draws).map (fun i => (seed, i)) := by
  have hw1 := run_wf w pre hw
  have hI := run_inv _ _ _ seed _ mid (create_inv seed _ hw1) hmid
  exact exec_inv _ _ _ seed draws py _ hI

/-- hence two freshly created simulators configured with the same seed return identical samples,
whatever else the process did in between -/
theorem same_seed_same_samples (pre₁ mid₁ pre₂ mid₂ : List Op) (seed draws : Nat) (py : Bool)
    (w₁ w₂ : World) (h₁ : WF w₁) (h₂ : WF w₂)
    (hm₁ : ∀ op ∈ mid₁, Foreign ((run w₁ pre₁).1.cfgs.length) ((run w₁ pre₁).1.sims.length) op)
    (hm₂ : ∀ op ∈ mid₂, Foreign ((run w₂ pre₂).1.cfgs.length) ((run w₂ pre₂).1.sims.length) op) :
    scenario pre₁ seed mid₁ draws py w₁ = scenario pre₂ seed mid₂ draws py w₂ := by
  rw [fresh_simulator_draws pre₁ mid₁ seed draws py w₁ h₁ hm₁,
    fresh_simulator_draws pre₂ mid₂ seed draws py w₂ h₂ hm₂]

/-- different seeds give different streams (as streams; that the PRNG's VALUES differ is a property
of the generator, checked statistically by the harness) -/
theorem different_seed_different_stream (pre mid : List Op) (s₁ s₂ draws : Nat) (py : Bool)
    (w : World) (hw : WF w) (hd : 0 < draws) (hne : s₁ ≠ s₂)
    (hmid : ∀ op ∈ mid, Foreign ((run w pre).1.cfgs.length) ((run w pre).1.sims.length) op) :
    scenario pre s₁ mid draws py w ≠ scenario pre s₂ mid draws py w := by
  rw [fresh_simulator_draws pre mid s₁ draws py w hw hmid,
    fresh_simulator_draws pre mid s₂ draws py w hw hmid]
  intro h
  obtain ⟨n, rfl⟩ : ∃ n, draws = n + 1 := ⟨draws - 1, by omega⟩
  have := congrArg (fun l => l[0]?) h
  simp at this
  exact hne this

/-- seed 0 is a seed like any other (the former `seed or urandom` treated it as unset) -/
example : scenario [] 0 [.newConfig none, .foreignSeed 3, .foreignRandom 2] 2 true init = [(0, 0), (0, 1)] := by
  decide

/-! ## seeding by assignment (`config.seed_sequence = seed`) -/

/-- reachable worlds: well-formed, and simulators own pairwise distinct configs (each `newSim`
stores a fresh copy, appended at index `cfgs.length`) -/
def Reach (w : World) : Prop :=
  WF w ∧ List.Pairwise (· < ·) w.sims

theorem init_reach : Reach init := by
  refine ⟨⟨?_, ?_⟩, ?_⟩ <;> simp [init]

theorem step_reach (w : World) (op : Op) (h : Reach w) : Reach (step w op).1 := by
  refine ⟨step_wf w op h.1, ?_⟩
  obtain ⟨⟨_, hs⟩, hp⟩ := h
  cases op with
  | newConfig seed => cases seed <;> exact hp
  | copyConfig c =>
    simp only [step]
    cases hcc : w.cfgs[c]? <;> exact hp
  | newSim c =>
    simp only [step]
    cases hcc : w.cfgs[c]? with
    | none => exact hp
    | some cfg =>
      simp only [List.pairwise_append, List.pairwise_singleton, List.mem_singleton]
      refine ⟨hp, trivial, ?_⟩
      intro a ha b hb
      subst hb
      exact hs a ha
  | exec sim draws py =>
    cases hs1 : w.sims[sim]? with
    | none => simp only [step, hs1]; exact hp
    | some c =>
      cases hc1 : w.cfgs[c]? with
      | none => simp only [step, hs1, hc1]; exact hp
      | some cfg =>
        cases hg1 : w.gens[if py then cfg.pyGen else cfg.npGen]? with
        | none => simp only [step, hs1, hc1, hg1]; exact hp
        | some g => simp only [step, hs1, hc1, hg1]; exact hp
  | foreignRandom n => exact hp
  | foreignSeed s => exact hp
  | reseed c seed =>
    simp only [step]
    split <;> exact hp

theorem run_reach (w : World) (ops : List Op) (h : Reach w) : Reach (run w ops).1 := by
  induction ops generalizing w with
  | nil => exact h
  | cons op ops ih =>
    simp only [run]
    exact ih _ (step_reach w op h)

/-- in a reachable world two different simulators own different configs -/
theorem sims_inj (w : World) (h : Reach w) (i j k : Nat) (hi : w.sims[i]? = some k)
    (hj : w.sims[j]? = some k) : i = j := by
  obtain ⟨hil, hik⟩ := List.getElem?_eq_some_iff.1 hi
  obtain ⟨hjl, hjk⟩ := List.getElem?_eq_some_iff.1 hj
  have hp := List.pairwise_iff_getElem.1 h.2
  rcases Nat.lt_trichotomy i j with hlt | heq | hgt
  · have := hp i j hil hjl hlt; omega
  · exact heq
  · have := hp j i hjl hil hgt; omega

/-- foreign activity after a re-seed of config `c0` (the config of simulator `s0`) -/
def Foreign2 (c0 s0 : Nat) : Op → Prop
  | .newConfig _ => True
  | .copyConfig c => c ≠ c0
  | .newSim c => c ≠ c0
  | .exec sim _ _ => sim ≠ s0
  | .foreignRandom _ => True
  | .foreignSeed _ => True
  | .reseed c _ => c ≠ c0

/-- invariant kept by `Foreign2` activity: config `c0` (owned by simulator `s0` only) points to the two
generators `g`, `g + 1`, both still at the start of the stream of `seed`, and no other config points
to them -/
def Inv2 (g c0 s0 seed : Nat) (w : World) : Prop :=
  w.gens[g]? = some ⟨seed, 0⟩ ∧ w.gens[g + 1]? = some ⟨seed, 0⟩ ∧
  w.cfgs[c0]? = some ⟨g, g + 1⟩ ∧ w.sims[s0]? = some c0 ∧
  (∀ i cfg, i ≠ c0 → w.cfgs[i]? = some cfg →
    cfg.npGen ≠ g ∧ cfg.npGen ≠ g + 1 ∧ cfg.pyGen ≠ g ∧ cfg.pyGen ≠ g + 1) ∧
  (∀ i k, i ≠ s0 → w.sims[i]? = some k → k ≠ c0)

/-- the assignment establishes the invariant -/
theorem reseed_inv2 (w : World) (hw : Reach w) (s0 c0 seed : Nat) (hs : w.sims[s0]? = some c0) :
    Inv2 w.gens.length c0 s0 seed (step w (.reseed c0 seed)).1 := by
  have hc0 : c0 < w.cfgs.length := hw.1.2 c0 (List.mem_of_getElem? hs)
  simp only [step, if_pos hc0]
  refine ⟨?_, ?_, ?_, hs, ?_, ?_⟩
  · simp
  · simp
  · simp only [List.getElem?_set_self hc0]
  · intro i cfg hi hcfg
    simp only at hcfg
    rw [List.getElem?_set_ne (Ne.symm hi)] at hcfg
    have := hw.1.1 cfg (List.mem_of_getElem? hcfg)
    omega
  · intro i k hi hk hkc
    subst hkc
    exact hi (sims_inj w hw i s0 k hk hs)

theorem getElem?_append_singleton_cases {α} (l : List α) (a b : α) (i : Nat)
    (h : (l ++ [a])[i]? = some b) : l[i]? = some b ∨ (i = l.length ∧ b = a) := by
  by_cases hi : i < l.length
  · rw [List.getElem?_append_left hi] at h; exact Or.inl h
  · rw [List.getElem?_append_right (by omega)] at h
    right
    have hlen : i - l.length < 1 := by
      by_contra hcon
      rw [List.getElem?_eq_none (by simp; omega)] at h
      cases h
    have h0 : i - l.length = 0 := by omega
    rw [h0] at h
    simp only [List.getElem?_cons_zero, Option.some.injEq] at h
    exact ⟨by omega, h.symm⟩

theorem step_inv2 (g c0 s0 seed : Nat) (w : World) (op : Op) (h : Inv2 g c0 s0 seed w)
    (hf : Foreign2 c0 s0 op) : Inv2 g c0 s0 seed (step w op).1 := by
  obtain ⟨h1, h2, h3, h4, h5, h6⟩ := h
  have hg : g + 1 < w.gens.length := (List.getElem?_eq_some_iff.1 h2).1
  have hc0 : c0 < w.cfgs.length := (List.getElem?_eq_some_iff.1 h3).1
  cases op with
  | newConfig sd =>
    cases sd <;>
    · refine ⟨?_, ?_, ?_, h4, ?_, h6⟩
      · exact getElem?_append_some _ _ _ _ h1
      · exact getElem?_append_some _ _ _ _ h2
      · exact getElem?_append_some _ _ _ _ h3
      · intro i cfg hi hcfg
        simp only [step] at hcfg
        rcases getElem?_append_singleton_cases _ _ _ _ hcfg with hcfg | ⟨_, rfl⟩
        · exact h5 i cfg hi hcfg
        · simp only; omega
  | copyConfig c' =>
    have hf' : c' ≠ c0 := hf
    cases hcc : w.cfgs[c']? with
    | none => simp only [step, hcc]; exact ⟨h1, h2, h3, h4, h5, h6⟩
    | some cfg0 =>
      simp only [step, hcc]
      refine ⟨h1, h2, getElem?_append_some _ _ _ _ h3, h4, ?_, h6⟩
      intro i cfg hi hcfg
      simp only at hcfg
      rcases getElem?_append_singleton_cases _ _ _ _ hcfg with hcfg | ⟨_, rfl⟩
      · exact h5 i cfg hi hcfg
      · exact h5 c' cfg hf' hcc
  | newSim c' =>
    have hf' : c' ≠ c0 := hf
    cases hcc : w.cfgs[c']? with
    | none => simp only [step, hcc]; exact ⟨h1, h2, h3, h4, h5, h6⟩
    | some cfg0 =>
      simp only [step, hcc]
      refine ⟨h1, h2, getElem?_append_some _ _ _ _ h3, getElem?_append_some _ _ _ _ h4, ?_, ?_⟩
      · intro i cfg hi hcfg
        simp only at hcfg
        rcases getElem?_append_singleton_cases _ _ _ _ hcfg with hcfg | ⟨_, rfl⟩
        · exact h5 i cfg hi hcfg
        · exact h5 c' cfg hf' hcc
      · intro i k hi hk
        simp only at hk
        rcases getElem?_append_singleton_cases _ _ _ _ hk with hk | ⟨_, rfl⟩
        · exact h6 i k hi hk
        · omega
  | exec sim draws py =>
    have hf' : sim ≠ s0 := hf
    cases hs1 : w.sims[sim]? with
    | none => simp only [step, hs1]; exact ⟨h1, h2, h3, h4, h5, h6⟩
    | some k =>
      cases hc1 : w.cfgs[k]? with
      | none => simp only [step, hs1, hc1]; exact ⟨h1, h2, h3, h4, h5, h6⟩
      | some cfg =>
        cases hg1 : w.gens[if py then cfg.pyGen else cfg.npGen]? with
        | none => simp only [step, hs1, hc1, hg1]; exact ⟨h1, h2, h3, h4, h5, h6⟩
        | some gg =>
          simp only [step, hs1, hc1, hg1]
          have hk := h6 sim k hf' hs1
          have hgi := h5 k cfg hk hc1
          have hne : (if py then cfg.pyGen else cfg.npGen) ≠ g ∧
              (if py then cfg.pyGen else cfg.npGen) ≠ g + 1 := by
            split <;> omega
          refine ⟨?_, ?_, h3, h4, h5, h6⟩
          · rw [List.getElem?_set_ne hne.1]; exact h1
          · rw [List.getElem?_set_ne hne.2]; exact h2
  | foreignRandom n => exact ⟨h1, h2, h3, h4, h5, h6⟩
  | foreignSeed s' => exact ⟨h1, h2, h3, h4, h5, h6⟩
  | reseed c' sd =>
    have hf' : c' ≠ c0 := hf
    simp only [step]
    split
    · refine ⟨getElem?_append_some _ _ _ _ h1, getElem?_append_some _ _ _ _ h2, ?_, h4, ?_, h6⟩
      · simp only
        rw [List.getElem?_set_ne hf']; exact h3
      · intro i cfg hi hcfg
        simp only at hcfg
        by_cases hic : c' = i
        · subst hic
          rw [List.getElem?_set_self (by assumption)] at hcfg
          cases hcfg
          simp only
          omega
        · rw [List.getElem?_set_ne hic] at hcfg
          exact h5 i cfg hi hcfg
    · exact ⟨h1, h2, h3, h4, h5, h6⟩

theorem run_inv2 (g c0 s0 seed : Nat) (w : World) (ops : List Op) (h : Inv2 g c0 s0 seed w)
    (hf : ∀ op ∈ ops, Foreign2 c0 s0 op) : Inv2 g c0 s0 seed (run w ops).1 := by
  induction ops generalizing w with
  | nil => exact h
  | cons op ops ih =>
    simp only [run]
    exact ih _ (step_inv2 g c0 s0 seed w op h (hf op (by simp)))
      (fun o ho => hf o (by simp [ho]))

theorem exec_inv2 (g c0 s0 seed draws : Nat) (py : Bool) (w : World) (h : Inv2 g c0 s0 seed w) :
    (step w (.exec s0 draws py)).2 = (List.range draws).map (fun i => (seed, i)) := by
  obtain ⟨h1, h2, h3, h4, _, _⟩ := h
  cases py <;> simp [step, h4, h3, h1, h2, drawN]

/-- **seeding by assignment**: after `config.seed_sequence = seed` on the config of a simulator, its
next execution draws exactly the first values of the stream of `seed`, on both the NumPy and the
Python generator, whatever happened before -/
theorem reseed_replays (pre mid : List Op) (s0 c0 seed draws : Nat) (py : Bool)
    (hs : (run init pre).1.sims[s0]? = some c0)
    (hmid : ∀ op ∈ mid, Foreign2 c0 s0 op) :
    (step (run (step (run init pre).1 (.reseed c0 seed)).1 mid).1 (.exec s0 draws py)).2
      = (List.range draws).map (fun i => (seed, i)) := by
  have hw := run_reach init pre init_reach
  have hI := run_inv2 _ c0 s0 seed _ mid (reseed_inv2 _ hw s0 c0 seed hs) hmid
  exact exec_inv2 _ c0 s0 seed draws py _ hI

/-- two simulators seeded by assignment with the same seed draw identical values -/
theorem reseed_same_seed_same_samples (pre₁ mid₁ pre₂ mid₂ : List Op)
    (s₁ c₁ s₂ c₂ seed draws : Nat) (py : Bool)
    (h₁ : (run init pre₁).1.sims[s₁]? = some c₁) (h₂ : (run init pre₂).1.sims[s₂]? = some c₂)
    (hm₁ : ∀ op ∈ mid₁, Foreign2 c₁ s₁ op) (hm₂ : ∀ op ∈ mid₂, Foreign2 c₂ s₂ op) :
    (step (run (step (run init pre₁).1 (.reseed c₁ seed)).1 mid₁).1 (.exec s₁ draws py)).2
      = (step (run (step (run init pre₂).1 (.reseed c₂ seed)).1 mid₂).1 (.exec s₂ draws py)).2 := by
  rw [reseed_replays pre₁ mid₁ s₁ c₁ seed draws py h₁ hm₁,
    reseed_replays pre₂ mid₂ s₂ c₂ seed draws py h₂ hm₂]

/-- non-vacuity: a simulator that already sampled (its generators are advanced) is re-seeded by
assignment; after unrelated activity its next draws start the stream of the new seed afresh -/
example :
    (run init [.newConfig none, .newSim 0, .exec 0 3 true]).1.sims[0]? = some 1 ∧
    (∀ op ∈ [Op.newConfig (some 7), .foreignSeed 3, .copyConfig 0], Foreign2 1 0 op) ∧
    (step (run (step (run init [.newConfig none, .newSim 0, .exec 0 3 true]).1 (.reseed 1 7)).1
      [.newConfig (some 7), .foreignSeed 3, .copyConfig 0]).1 (.exec 0 2 true)).2
      = [(7, 0), (7, 1)] := by
  refine ⟨by decide, ?_, by decide⟩
  intro op hop
  simp only [List.mem_cons, List.not_mem_nil, or_false] at hop
  rcases hop with rfl | rfl | rfl <;> simp [Foreign2]

/-- before the assignment the same execution would have continued the old stream at position 3 -/
example :
    (step (run init [.newConfig none, .newSim 0, .exec 0 3 true]).1 (.exec 0 2 true)).2
      = [(urandomSeed 0, 3), (urandomSeed 0, 4)] := by
  decide

end Pq.C11
