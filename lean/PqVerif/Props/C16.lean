import PqVerif.Lemmas.IndexLaws
import PqVerif.Lemmas.GaussSym
import PqVerif.Model.Engine

/-!
# C16 — relabelling modes relabels the result; disjoint gates commute

Fock simulators: `Model/Index.lean` (index tables, index-based application); Gaussian simulator:
`Model/Gauss.lean`; engine remap: `Model/Engine.lean`.  All statements are for every number of modes,
every cutoff, every valid mode tuple in any order.
-/
namespace Pq.C16
open Pq.Index Pq.Comb Pq.Gauss Matrix

/-- the index tables visit every basis index exactly once, whatever the order of the mode tuple -/
theorem indexList_perm (modes : List Nat) (d cutoff : Nat) (hm : ValidModes d modes) (hk : modes ≠ []) :
    ((indexList modes d cutoff).flatten.flatten).Perm (List.range (cutoffDim cutoff d)) :=
  Pq.Index.indexList_perm modes d cutoff hm hk

theorem projectionIndices_spec (d cutoff : Nat) (modes bv : List Nat) (hm : ValidModes d modes)
    (hl : bv.length = modes.length) (hs : bv.sum < cutoff) :
    (projectionIndices d cutoff modes bv).Nodup ∧
    ∀ i, i ∈ projectionIndices d cutoff modes bv ↔
      ∃ v, v.length = d ∧ v.sum < cutoff ∧ indexInFockSpace v = i ∧
        ∀ j, j < modes.length → v.getD (modes.getD j 0) 0 = bv.getD j 0 :=
  Pq.Index.projectionIndices_spec d cutoff modes bv hm hl hs

variable {K : Type} [CommRing K]

/-- what the code computes through indices is the action on labelled occupation vectors -/
theorem applyIndexed_eq_labelled (T : Nat → List (List K)) (modes : List Nat) (d cutoff : Nat)
    (hm : ValidModes d modes) (hk : modes ≠ []) (hT : BlocksOK T modes.length cutoff)
    (state : List K) (hlen : state.length = cutoffDim cutoff d)
    (v : List Nat) (hv : v.length = d) (hs : v.sum < cutoff) :
    (applyIndexed T modes d cutoff state).getD (indexInFockSpace v) 0 =
      applyLabelled T modes (fun w => state.getD (indexInFockSpace w) 0) v :=
  Pq.Index.applyIndexed_eq_labelled T modes d cutoff hm hk hT state hlen v hv hs

/-- renaming the modes of the gate and of the state renames the result -/
theorem applyLabelled_equivariant (T : Nat → List (List K)) (modes : List Nat) (d : Nat)
    (p : List Nat) (hp : p.Perm (List.range d)) (hm : ValidModes d modes)
    (ψ : List Nat → K) (v : List Nat) (hv : v.length = d) :
    applyLabelled T (modes.map (fun m => p.getD m 0))
        (fun w => ψ (relabel (List.range d |>.map (fun j => p.idxOf j)) w)) (relabel p v) =
      applyLabelled T modes ψ v :=
  Pq.Index.applyLabelled_equivariant T modes d p hp hm ψ v hv

/-- number-conserving gates on disjoint modes commute exactly in the truncated space -/
theorem applyLabelled_comm (T₁ T₂ : Nat → List (List K)) (m₁ m₂ : List Nat) (d : Nat)
    (h₁ : ValidModes d m₁) (h₂ : ValidModes d m₂) (hdisj : ∀ x ∈ m₁, x ∉ m₂)
    (ψ : List Nat → K) (v : List Nat) (hv : v.length = d) :
    applyLabelled T₂ m₂ (applyLabelled T₁ m₁ ψ) v = applyLabelled T₁ m₁ (applyLabelled T₂ m₂ ψ) v :=
  Pq.Index.applyLabelled_comm T₁ T₂ m₁ m₂ d h₁ h₂ hdisj ψ v hv

section gauss
variable {F : Type} [CommRing F] [StarRing F] {d k k₁ k₂ : Nat}

/-- Gaussian simulator: relabelling (linear gates and displacements) -/
theorem gauss_equivariant (P A : Matrix (Fin k) (Fin k) F) (alpha : F) (modes : Fin k → Fin d)
    (σ : Equiv.Perm (Fin d)) (s : State F d) :
    applyLinear P A (σ ∘ modes) (relabelState σ s) = relabelState σ (applyLinear P A modes s) ∧
    displace alpha (σ ∘ modes) (relabelState σ s) = relabelState σ (displace alpha modes s) :=
  ⟨applyLinear_equivariant P A modes σ s, displace_equivariant alpha modes σ s⟩

/-- Gaussian simulator: gates on disjoint modes always commute (also active ones) -/
theorem gauss_comm_of_disjoint (P₁ A₁ : Matrix (Fin k₁) (Fin k₁) F) (P₂ A₂ : Matrix (Fin k₂) (Fin k₂) F)
    (alpha : F) (m₁ : Fin k₁ → Fin d) (m₂ : Fin k₂ → Fin d)
    (h₁ : Function.Injective m₁) (h₂ : Function.Injective m₂) (hdisj : ∀ a b, m₁ a ≠ m₂ b)
    (s : State F d) (hC : s.Cᴴ = s.C) (hG : s.Gᵀ = s.G) :
    applyLinear P₂ A₂ m₂ (applyLinear P₁ A₁ m₁ s) = applyLinear P₁ A₁ m₁ (applyLinear P₂ A₂ m₂ s) ∧
    applyLinear P₂ A₂ m₂ (displace alpha m₁ s) = displace alpha m₁ (applyLinear P₂ A₂ m₂ s) :=
  ⟨applyLinear_comm_of_disjoint P₁ A₁ P₂ A₂ m₁ m₂ h₁ h₂ hdisj s hC hG,
   displace_comm_of_disjoint alpha P₂ A₂ m₁ m₂ hdisj s⟩
end gauss

/-- the engine's active-mode remap and its inverse are mutually inverse on the active modes -/
theorem remap_inverse (active modes : List Nat) (hsub : ∀ m ∈ modes, m ∈ active) :
    Pq.Engine.remapInverse active (Pq.Engine.remap active modes) = modes := by
  unfold Pq.Engine.remapInverse Pq.Engine.remap
  rw [List.map_map]
  conv_rhs => rw [← List.map_id modes]
  apply List.map_congr_left
  intro m hm
  have h := hsub m hm
  simp only [Function.comp, id]
  have hi : active.idxOf m < active.length := List.idxOf_lt_length_iff.mpr h
  simp [List.getD_eq_getElem?_getD, List.getElem?_eq_getElem hi, List.getElem_idxOf hi]

end Pq.C16
