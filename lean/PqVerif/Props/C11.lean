import PqVerif.Props.C11Rng
import PqVerif.Lemmas.PermLaws

/-!
# C11 — seeded runs are reproducible and independent of parallel scheduling

(a) generator ownership (`Model/Rng.lean`, theorems in `Props/C11Rng.lean`);
(b) the native permanent kernel (`Model/Kernel.lean`): the work partition, the Gray-code counter
and the exactness of the incremental updates, hence independence of the number of jobs.
-/
namespace Pq.C11
open Pq.Kernel

/-- for every value `hardware_concurrency() ≥ 1` the jobs are disjoint, ordered, and cover the range -/
theorem jobRanges_partition (idxMax threads : Nat) (h1 : 0 < idxMax) (ht : 0 < threads) :
    (jobRanges idxMax threads).flatMap (fun r => List.range' r.1 (r.2 + 1 - r.1)) = List.range idxMax :=
  Pq.Kernel.jobRanges_partition idxMax threads h1 ht

/-- latent defect, recorded as a known finding: a concurrency query returning 0 yields no jobs -/
theorem jobRanges_zero_threads (idxMax : Nat) : jobRanges idxMax 0 = [] :=
  Pq.Kernel.jobRanges_zero_threads idxMax

theorem grayOf_injective (limits : List Nat) (hpos : ∀ n ∈ limits, 0 < n) (a b : Nat)
    (ha : a < total limits) (hb : b < total limits) (h : grayOf limits a = grayOf limits b) : a = b :=
  Pq.Kernel.grayOf_injective limits hpos a b ha hb h

theorem gray_adjacent (limits : List Nat) (hpos : ∀ n ∈ limits, 0 < n) (o : Nat)
    (h : o + 1 < total limits) :
    ∃ i, i < limits.length ∧
      ((grayOf limits (o + 1)).getD i 0 = (grayOf limits o).getD i 0 + 1 ∨
       (grayOf limits (o + 1)).getD i 0 + 1 = (grayOf limits o).getD i 0) ∧
      ∀ j, j ≠ i → (grayOf limits (o + 1)).getD j 0 = (grayOf limits o).getD j 0 :=
  Pq.Kernel.gray_adjacent limits hpos o h

theorem next_eq_init (limits : List Nat) (hpos : ∀ n ∈ limits, 0 < n) (o : Nat)
    (h : o + 1 < total limits) :
    let r := (Counter.init limits o).next
    r.1 = Counter.init limits (o + 1) ∧
    r.2.2.1 = (grayOf limits o).getD r.2.1 0 ∧
    r.2.2.2 = (grayOf limits (o + 1)).getD r.2.1 0 ∧
    (grayOf limits o).getD r.2.1 0 ≠ (grayOf limits (o + 1)).getD r.2.1 0 :=
  Pq.Kernel.next_eq_init limits hpos o h

variable {K : Type} [Field K]

/-- a job computes exactly the sum of the direct summands over its range -/
theorem runJob_eq_sum (A : List (List K)) (mults cols : List Nat) (lo hi : Nat)
    (hA : Shaped A mults cols) (hlo : lo ≤ hi) (hhi : hi < total (mults.map (· + 1))) :
    runJob false A mults cols (mults.map (· + 1)) lo hi =
      ((List.range' lo (hi + 1 - lo)).map (term A mults cols (mults.map (· + 1)))).sum :=
  Pq.Kernel.runJob_eq_sum A mults cols lo hi hA hlo hhi

/-- **deterministic quantities do not depend on how the kernel partitions its work** -/
theorem permanent_threads_independent (A : List (List K)) (rows cols : List Nat)
    (t₁ t₂ : Nat) (h₁ : 0 < t₁) (h₂ : 0 < t₂)
    (hA : A.length = rows.length ∧ ∀ r ∈ A, r.length = cols.length) :
    permanent false t₁ A rows cols = permanent false t₂ A rows cols :=
  Pq.Kernel.permanent_threads_independent A rows cols t₁ t₂ h₁ h₂ hA

theorem permanent_zero_threads (A : List (List K)) (rows cols : List Nat)
    (h : (splitRow A rows).2.sum = cols.sum) (h2 : 1 < (splitRow A rows).1.length)
    (h3 : cols.length ≠ 0) (h4 : (splitRow A rows).2.sum ≠ 0) :
    permanent false 0 A rows cols = some 0 :=
  Pq.Kernel.permanent_zero_threads A rows cols h h2 h3 h4

end Pq.C11
