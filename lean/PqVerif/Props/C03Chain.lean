import PqVerif.Lemmas.MeasureChain

/-!
# C03 — the chain rule of measurement (`shots = None`)

For a pure state with amplitudes `ψ (a, b, c)` (`a`: outcome of the modes measured first, `b`: of those measured
second, `c`: the remaining modes), and the rule the simulators implement (branch weight = outcome probability,
branch state = projection divided by the square root of that probability, weights multiply along a branch):
the weights sum to the squared norm of the measured state, every branch state is normalised, measuring one group
after the other gives the same joint distribution as measuring them together, and the final branch state is the
normalised projection on the joint outcome.  Finite outcome sets of any size; no assumption on `ψ`.
-/
namespace Pq.C03Chain
open BigOperators Pq.MeasureChain

variable {A B C : Type} [Fintype A] [Fintype B] [Fintype C]

theorem weights_sum (ψ : A × B × C → ℂ) : ∑ a, pA ψ a = ∑ x, Complex.normSq (ψ x) :=
  Pq.MeasureChain.weights_sum ψ

theorem post_normalised (ψ : A × B × C → ℂ) (a : A) (h : pA ψ a ≠ 0) :
    ∑ bc, Complex.normSq (post ψ a bc) = 1 :=
  Pq.MeasureChain.post_normalised ψ a h

theorem sequential_eq_joint (ψ : A × B × C → ℂ) (a : A) (b : B) (h : pA ψ a ≠ 0) :
    pA ψ a * pB (post ψ a) b = pAB ψ a b :=
  Pq.MeasureChain.sequential_eq_joint ψ a b h

theorem joint_zero_of_first_zero (ψ : A × B × C → ℂ) (a : A) (b : B) (h : pA ψ a = 0) : pAB ψ a b = 0 :=
  Pq.MeasureChain.joint_zero_of_first_zero ψ a b h

theorem final_branch_state (ψ : A × B × C → ℂ) (a : A) (b : B) (h : pA ψ a ≠ 0) (hb : pAB ψ a b ≠ 0) (c : C) :
    post ψ a (b, c) / (Real.sqrt (pB (post ψ a) b) : ℂ) = ψ (a, b, c) / (Real.sqrt (pAB ψ a b) : ℂ) :=
  Pq.MeasureChain.final_branch_state ψ a b h hb c

end Pq.C03Chain
