import Mathlib.Tactic
import Mathlib.LinearAlgebra.Matrix.PosDef
import Mathlib.Analysis.Complex.Order
import PqVerif.Lemmas.GaussCongr
import PqVerif.Lemmas.GateLaws

/-!
# C08 — every reachable state is a physical quantum state (partial)

Proved here: the algebraic facts behind "physical in ⇒ physical out" for the unitary part of every
simulator; what is not covered (channels, measurement updates, hafnian-based observables) is monitored on
the real simulators after every instruction.
-/
namespace Pq.C08
open Matrix Pq.Gauss
open scoped ComplexOrder

/-- a congruence keeps a positive semidefinite matrix positive semidefinite -/
theorem congruence_psd {n : Type} [Fintype n] [DecidableEq n] (Γ S : Matrix n n ℂ) (h : Γ.PosSemidef) :
    (S * Γ * Sᴴ).PosSemidef := by
  exact h.mul_mul_conjTranspose_same S

/-- hence every linear gate with a symplectic `(P, A)` (all built-in gates: `Props/C07`) maps a physical
Gaussian state — ladder covariance `Γ = ⟨ξ ξ†⟩ ⪰ 0`, which is the uncertainty relation — to a physical one,
on any subset of modes in any order; by induction so does every sequence of such gates -/
theorem gaussian_gate_keeps_physical {d k : Nat} (P A : Matrix (Fin k) (Fin k) ℂ) (modes : Fin k → Fin d)
    (hinj : Function.Injective modes) (s : State ℂ d) (hC : s.Cᴴ = s.C) (hG : s.Gᵀ = s.G)
    (h1 : P * Pᴴ - A * Aᴴ = 1) (h2 : P * Aᵀ = A * Pᵀ) (hphys : (gamma s).PosSemidef) :
    (gamma (applyLinear P A modes s)).PosSemidef ∧
    (applyLinear P A modes s).Cᴴ = (applyLinear P A modes s).C ∧
    (applyLinear P A modes s).Gᵀ = (applyLinear P A modes s).G := by
  refine ⟨?_, applyLinear_hermitian P A modes hinj s hC hG h2⟩
  rw [applyLinear_eq_congr P A modes hinj s hC hG h1 h2]
  exact congruence_psd _ _ hphys

/-- a Kraus update `ρ ↦ K ρ K†` keeps a density matrix positive semidefinite -/
theorem kraus_psd {n : Type} [Fintype n] [DecidableEq n] (ρ K : Matrix n n ℂ) (h : ρ.PosSemidef) :
    (K * ρ * Kᴴ).PosSemidef := by
  exact h.mul_mul_conjTranspose_same K

/-- a unitary (e.g. the block-diagonal Fock representation of a passive gate) preserves the norm of a
state vector exactly -/
theorem unitary_preserves_norm {n : Type} [Fintype n] [DecidableEq n] (U : Matrix n n ℂ) (hU : Uᴴ * U = 1)
    (ψ : n → ℂ) :
    star (U.mulVec ψ) ⬝ᵥ (U.mulVec ψ) = star ψ ⬝ᵥ ψ := by
  rw [star_mulVec, dotProduct_mulVec, vecMul_vecMul, hU, vecMul_one]

/-- a contraction (`1 - K†K ⪰ 0`, e.g. a truncated or lossy update) never increases the norm -/
theorem contraction_norm_le {n : Type} [Fintype n] [DecidableEq n] (K : Matrix n n ℂ)
    (hK : (1 - Kᴴ * K).PosSemidef) (ψ : n → ℂ) :
    (star (K.mulVec ψ) ⬝ᵥ (K.mulVec ψ)).re ≤ (star ψ ⬝ᵥ ψ).re := by
  have key : star (K.mulVec ψ) ⬝ᵥ (K.mulVec ψ) = star ψ ⬝ᵥ ((Kᴴ * K).mulVec ψ) := by
    rw [star_mulVec, dotProduct_mulVec, vecMul_vecMul, dotProduct_mulVec]
  have h0 := hK.dotProduct_mulVec_nonneg ψ
  rw [sub_mulVec, dotProduct_sub, one_mulVec, ← key] at h0
  have := (Complex.le_def.mp h0).1
  simpa using this

end Pq.C08
