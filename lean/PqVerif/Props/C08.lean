import Mathlib.Tactic
import Mathlib.LinearAlgebra.Matrix.PosDef
import Mathlib.Analysis.Complex.Order
import PqVerif.Lemmas.GaussCongr
import PqVerif.Lemmas.GateLaws
import PqVerif.Lemmas.Attenuator
import PqVerif.Lemmas.GaussChannel

/-!
# C08 — every reachable state is a physical quantum state (partial)

Proved here: the algebraic facts behind "physical in ⇒ physical out" for the unitary part of every
simulator; and for the loss channel of the Fock simulators (`attenuator`: Kraus form, complete positivity, trace); what is not covered
(the Gaussian channels, measurement updates, hafnian-based observables) is monitored on
the real simulators after every instruction.
-/
namespace Pq.C08
open Matrix Pq.Gauss
open scoped ComplexOrder

/-- a congruence keeps a positive semidefinite matrix positive semidefinite -/
theorem congruence_psd {n : Type} [Fintype n] [DecidableEq n] (Γ S : Matrix n n ℂ) (h : Γ.PosSemidef) :
    (S * Γ * Sᴴ).PosSemidef := by
  exact h.mul_mul_conjTranspose_same S

/-- hence every linear gate with a symplectic `(P, A)` (all built-in gates: `Props/C07`) maps a physical
Gaussian state — ladder covariance `Γ = ⟨ξ ξ†⟩ ⪰ 0`, which is the uncertainty relation — to a physical one,
on any subset of modes in any order; by induction so does every sequence of such gates -/
theorem gaussian_gate_keeps_physical {d k : Nat} (P A : Matrix (Fin k) (Fin k) ℂ) (modes : Fin k → Fin d)
    (hinj : Function.Injective modes) (s : State ℂ d) (hC : s.Cᴴ = s.C) (hG : s.Gᵀ = s.G)
    (h1 : P * Pᴴ - A * Aᴴ = 1) (h2 : P * Aᵀ = A * Pᵀ) (hphys : (gamma s).PosSemidef) :
    (gamma (applyLinear P A modes s)).PosSemidef ∧
    (applyLinear P A modes s).Cᴴ = (applyLinear P A modes s).C ∧
    (applyLinear P A modes s).Gᵀ = (applyLinear P A modes s).G := by
  refine ⟨?_, applyLinear_hermitian P A modes hinj s hC hG h2⟩
  rw [applyLinear_eq_congr P A modes hinj s hC hG h1 h2]
  exact congruence_psd _ _ hphys

/-- a Kraus update `ρ ↦ K ρ K†` keeps a density matrix positive semidefinite -/
theorem kraus_psd {n : Type} [Fintype n] [DecidableEq n] (ρ K : Matrix n n ℂ) (h : ρ.PosSemidef) :
    (K * ρ * Kᴴ).PosSemidef := by
  exact h.mul_mul_conjTranspose_same K

/-- a unitary (e.g. the block-diagonal Fock representation of a passive gate) preserves the norm of a
state vector exactly -/
theorem unitary_preserves_norm {n : Type} [Fintype n] [DecidableEq n] (U : Matrix n n ℂ) (hU : Uᴴ * U = 1)
    (ψ : n → ℂ) :
    star (U.mulVec ψ) ⬝ᵥ (U.mulVec ψ) = star ψ ⬝ᵥ ψ := by
  rw [star_mulVec, dotProduct_mulVec, vecMul_vecMul, hU, vecMul_one]

/-- a contraction (`1 - K†K ⪰ 0`, e.g. a truncated or lossy update) never increases the norm -/
theorem contraction_norm_le {n : Type} [Fintype n] [DecidableEq n] (K : Matrix n n ℂ)
    (hK : (1 - Kᴴ * K).PosSemidef) (ψ : n → ℂ) :
    (star (K.mulVec ψ) ⬝ᵥ (K.mulVec ψ)).re ≤ (star ψ ⬝ᵥ ψ).re := by
  have key : star (K.mulVec ψ) ⬝ᵥ (K.mulVec ψ) = star ψ ⬝ᵥ ((Kᴴ * K).mulVec ψ) := by
    rw [star_mulVec, dotProduct_mulVec, vecMul_vecMul, dotProduct_mulVec]
  have h0 := hK.dotProduct_mulVec_nonneg ψ
  rw [sub_mulVec, dotProduct_sub, one_mulVec, ← key] at h0
  have := (Complex.le_def.mp h0).1
  simpa using this


/-! ## the Fock loss channel (`attenuator` in piquasso/_simulators/fock/simulation_steps.py) -/

/-- the update of the code is the Kraus form `Σ_k K_k ρ K_k†` -/
theorem attenuator_kraus_form {α : Type} [Fintype α] [DecidableEq α] (c : ℕ) (θ : ℝ) (hc : Real.cos θ ≠ 0)
    (ρ : Matrix (Fin c × α) (Fin c × α) ℂ) :
    Pq.Attenuator.attenuate c θ ρ = ∑ k ∈ Finset.range c, Pq.Attenuator.kraus c θ k * ρ * (Pq.Attenuator.kraus c θ k)ᴴ :=
  Pq.Attenuator.attenuate_eq_kraus c θ hc ρ

/-- the Kraus operators are complete on the truncated space -/
theorem attenuator_kraus_complete {α : Type} [Fintype α] [DecidableEq α] (c : ℕ) (θ : ℝ) :
    ∑ k ∈ Finset.range c, (Pq.Attenuator.kraus (α := α) c θ k)ᴴ * Pq.Attenuator.kraus c θ k = 1 :=
  Pq.Attenuator.kraus_complete c θ

/-- physical in ⇒ physical out: positive semidefinite, Hermitian, same trace, for every cutoff, every number of
spectator modes and every angle with `cos θ ≠ 0` -/
theorem attenuator_keeps_physical {α : Type} [Fintype α] [DecidableEq α] (c : ℕ) (θ : ℝ) (hc : Real.cos θ ≠ 0)
    (ρ : Matrix (Fin c × α) (Fin c × α) ℂ) (hρ : ρ.PosSemidef) :
    (Pq.Attenuator.attenuate c θ ρ).PosSemidef ∧ (Pq.Attenuator.attenuate c θ ρ).IsHermitian ∧
      Matrix.trace (Pq.Attenuator.attenuate c θ ρ) = Matrix.trace ρ :=
  ⟨Pq.Attenuator.attenuate_posSemidef c θ hc ρ hρ, Pq.Attenuator.attenuate_isHermitian c θ hc ρ hρ.isHermitian,
    Pq.Attenuator.attenuate_trace c θ hc ρ⟩


/-! ## deterministic Gaussian channels `σ ↦ X σ Xᵀ + Y` (`DeterministicGaussianChannel`) -/

/-- the documented condition `Y + iΩ - i X Ω Xᵀ ⪰ 0` keeps the uncertainty relation `σ + iΩ ⪰ 0`, any number of modes -/
theorem gaussian_channel_keeps_uncertainty {n : Type} [Fintype n] [DecidableEq n] (σ X Y Ω : Matrix n n ℂ)
    (hσ : (σ + Complex.I • Ω).PosSemidef)
    (hch : (Y + Complex.I • Ω - Complex.I • (X * Ω * Xᴴ)).PosSemidef) :
    (X * σ * Xᴴ + Y + Complex.I • Ω).PosSemidef :=
  Pq.GaussChannel.channel_keeps_uncertainty σ X Y Ω hσ hch

open Pq.GaussChannel in
/-- the condition evaluated by `_validate` (`Y - iΩ - i X Ω Xᵀ ⪰ 0`) is NOT sufficient: it accepts the time reversal of one
mode, which sends a physical two-mode squeezed vacuum to an unphysical covariance matrix; and it rejects the identity
channel, which the documented condition accepts (recorded known finding `gaussian-channel:validation-sign`) -/
theorem gaussian_channel_code_condition_wrong :
    ((0 : Matrix (Fin 2) (Fin 2) ℂ) - Complex.I • Ω1 - Complex.I • (Xrev * Ω1 * Xrevᴴ)).PosSemidef ∧
    (tmsv + Complex.I • Ω2).PosSemidef ∧
    ¬ (Xrev2 * tmsv * Xrev2ᴴ + 0 + Complex.I • Ω2).PosSemidef ∧
    ¬ ((0 : Matrix (Fin 2) (Fin 2) ℂ) - Complex.I • Ω1
        - Complex.I • ((1 : Matrix (Fin 2) (Fin 2) ℂ) * Ω1 * (1 : Matrix (Fin 2) (Fin 2) ℂ)ᴴ)).PosSemidef :=
  ⟨code_condition_accepts_time_reversal, tmsv_physical, code_condition_insufficient, code_condition_rejects_identity.1⟩

end Pq.C08
