import PqVerif.Lemmas.DualRailLaws
import PqVerif.Lemmas.DualRailEncLaws

/-!
# C19 — dual-rail translation preserves qubit-circuit statistics (partial)

`Gen/DualRail.lean` and `Gen/DualRailShapes.lean` are REGENERATED on every run from
piquasso/dual_rail_encoding.py (the real `_map_qiskit_instr_to_pq` executed on fake Qiskit instructions
with symbolic angles); the beamsplitter / phase-shifter blocks come from the generated `Gen/Gates.lean`.

Proved for all angles: each emitted instruction list is, as an interferometer on the two rails, EXACTLY
its qubit gate (no residual phase, so compositions and conditioned blocks need no phase bookkeeping); the
KLM block is the real interferometer `czMat`, which for Knill's angles (`3 cos² θ₁ = 1`, `θ₂ = π/4 - θ₁/2`)
acts on the heralded subspace as `(s₁/3) · CZ` with no leakage (amplitudes = the simulators' own recurrence
`FockRep`, proved equal to the permanent in C01), success probability `2/27`; a layer of single-qubit gates
acts on dual-rail basis states as the tensor product.  Proved for the encoder model `DualRailEnc`: the
condition attached to an `if_test` block evaluates on the photonic outcome tuple to the qubit circuit's
condition on the classical bit (any measurement order, any bit assignment, overwrites, unwritten bits),
gates stay on the rails of their qubit and every two-qubit gate gets fresh auxiliary modes.
NOT proved: the composition of heralded blocks with the rest of a circuit (post-selection inside a larger
Fock state) and the effect of the 4-digit angle constants in the code — compared on the real simulator.
-/
namespace Pq.C19
open Matrix Pq.DualRailOps Pq.Gen.DualRail Pq.DualRailLaws Pq.DualRailEnc Pq.FockRep Pq.Kernel

theorem h_exact : seq dr_h = qH := dr_h_eq
theorem x_exact : seq dr_x = qX := dr_x_eq
theorem y_exact : seq dr_y = qY := dr_y_eq
theorem z_exact : seq dr_z = qZ := dr_z_eq
theorem rx_exact (t : ℝ) : seq (dr_rx t) = qRx t := dr_rx_eq t
theorem ry_exact (t : ℝ) : seq (dr_ry t) = qRy t := dr_ry_eq t
theorem rz_exact (t : ℝ) : seq (dr_rz t) = qRz t := dr_rz_eq t
theorem u_exact (t p l : ℝ) : seq (dr_u t p l) = qU t p l := dr_u_eq t p l
theorem p_exact (l : ℝ) : seq (dr_p l) = qP l := dr_p_eq l

theorem cz_block_is_czMat (t1 t2 : ℝ) :
    seq (dr_cz t1 t2) = (czMat (Real.cos t1) (Real.sin t1) (Real.cos t2) (Real.sin t2)).map ((↑) : ℝ → ℂ) :=
  dr_cz_eq t1 t2

theorem knill_angles (t1 : ℝ) (h : 3 * Real.cos t1 ^ 2 = 1) :
    3 * Real.sin t1 ^ 2 = 2 ∧
    Real.cos (Real.pi / 4 - t1 / 2) ^ 2 - Real.sin (Real.pi / 4 - t1 / 2) ^ 2 = Real.sin t1 ∧
    2 * Real.cos (Real.pi / 4 - t1 / 2) * Real.sin (Real.pi / 4 - t1 / 2) = Real.cos t1 :=
  Pq.DualRailLaws.knill_angles t1 h

theorem klm_cz {K : Type} [Field K] [CharZero K] (c1 s1 c2 s2 : K) (h1 : 3 * c1 ^ 2 = 1) (h2 : 3 * s1 ^ 2 = 2)
    (h3 : c2 ^ 2 - s2 ^ 2 = s1) (h4 : 2 * c2 * s2 = c1) :
    let U := matList (fun i j => czMat c1 s1 c2 s2 i j)
    fockRepP U [0, 0, 1, 1] [0, 0, 1, 1] = s1 / 3 ∧
    fockRepP U [1, 0, 1, 1] [1, 0, 1, 1] = s1 / 3 ∧
    fockRepP U [0, 1, 1, 1] [0, 1, 1, 1] = s1 / 3 ∧
    fockRepP U [1, 1, 1, 1] [1, 1, 1, 1] = -(s1 / 3) ∧
    fockRepP U [0, 1, 1, 1] [1, 0, 1, 1] = 0 ∧
    fockRepP U [1, 0, 1, 1] [0, 1, 1, 1] = 0 ∧
    fockRepP U [2, 0, 1, 1] [1, 1, 1, 1] = 0 ∧
    fockRepP U [0, 2, 1, 1] [1, 1, 1, 1] = 0 :=
  Pq.DualRailLaws.klm_cz c1 s1 c2 s2 h1 h2 h3 h4

/-- the statement at Knill's angles themselves: for every `θ₁` with `3 cos² θ₁ = 1` the block with
`θ₂ = π/4 - θ₁/2` is the heralded CZ -/
theorem klm_cz_at_knill_angles (t1 : ℝ) (h : 3 * Real.cos t1 ^ 2 = 1) :
    let U := matList (fun i j => czMat (Real.cos t1) (Real.sin t1) (Real.cos (Real.pi / 4 - t1 / 2)) (Real.sin (Real.pi / 4 - t1 / 2)) i j)
    fockRepP U [0, 0, 1, 1] [0, 0, 1, 1] = Real.sin t1 / 3 ∧
    fockRepP U [1, 0, 1, 1] [1, 0, 1, 1] = Real.sin t1 / 3 ∧
    fockRepP U [0, 1, 1, 1] [0, 1, 1, 1] = Real.sin t1 / 3 ∧
    fockRepP U [1, 1, 1, 1] [1, 1, 1, 1] = -(Real.sin t1 / 3) ∧
    fockRepP U [0, 1, 1, 1] [1, 0, 1, 1] = 0 ∧
    fockRepP U [1, 0, 1, 1] [0, 1, 1, 1] = 0 ∧
    fockRepP U [2, 0, 1, 1] [1, 1, 1, 1] = 0 ∧
    fockRepP U [0, 2, 1, 1] [1, 1, 1, 1] = 0 := by
  obtain ⟨h2, h3, h4⟩ := Pq.DualRailLaws.knill_angles t1 h
  exact Pq.DualRailLaws.klm_cz _ _ _ _ h h2 h3 h4

theorem klm_success_probability {K : Type} [Field K] [CharZero K] (s1 : K) (h2 : 3 * s1 ^ 2 = 2) :
    (s1 / 3) ^ 2 = 2 / 27 :=
  Pq.DualRailLaws.klm_success_probability s1 h2

theorem single_qubit_layer {K : Type} [CommRing K] {n : Nat} (V : Fin n → Matrix (Fin 2) (Fin 2) K) (b b' : Fin n → Fin 2) :
    Matrix.permanent (Matrix.of fun k l : Fin n => Matrix.blockDiagonal V (b' k, k) (b l, l)) = ∏ k, V k (b' k) (b k) :=
  dualrail_layer V b b'

theorem condition_reads_clbit (n : Nat) (pre : List QOp) (c val : Nat) (neg : Bool) (rec : List Nat)
    (hlen : rec.length = nMeasures pre) (hbits : ∀ b ∈ rec, b ≤ 1) :
    (Cond.mk (lookupBit (pre.foldl (stepOp n) {}).written c) val neg).eval (encodeRecord rec) =
      some ((runClassical pre rec c == val) != neg) :=
  Pq.DualRailEnc.condition_reads_clbit n pre c val neg rec hlen hbits

theorem ifElse_emits (n : Nat) (s : St) (c val : Nat) (qs : List Nat) (body els : List (String × Nat)) :
    (stepOp n s (.ifElse c val qs body els)).out = s.out ++
      body.flatMap (fun (name, k) => emit name [2 * qs.getD k 0, 2 * qs.getD k 0 + 1] (some ⟨lookupBit s.written c, val, false⟩)) ++
      els.flatMap (fun (name, k) => emit name [2 * qs.getD k 0, 2 * qs.getD k 0 + 1] (some ⟨lookupBit s.written c, val, true⟩)) :=
  Pq.DualRailEnc.ifElse_emits n s c val qs body els

theorem g1_local (name : String) (q : Nat) (cond : Option Cond)
    (hname : name ∈ ["h", "x", "y", "z", "rx", "ry", "rz", "u", "p", "measure"]) :
    ∀ p ∈ emit name [2 * q, 2 * q + 1] cond, ∀ m ∈ p.modes, m = 2 * q ∨ m = 2 * q + 1 :=
  Pq.DualRailEnc.g1_local name q cond hname

theorem g2_modes (n : Nat) (pre : List QOp) (name : String) (a b : Nat) (hname : name = "cz" ∨ name = "cx") :
    let s := pre.foldl (stepOp n) {}
    let k := pre.countP isTwo
    ∃ emitted, (stepOp n s (.g2 name a b)).out = s.out ++ emitted ∧
      ∀ p ∈ emitted, ∀ m ∈ p.modes,
        m = 2 * a ∨ m = 2 * a + 1 ∨ m = 2 * b ∨ m = 2 * b + 1 ∨ m = 2 * n + 2 * k ∨ m = 2 * n + 2 * k + 1 :=
  Pq.DualRailEnc.g2_modes n pre name a b hname

theorem aux_fresh (n k k' : Nat) (h : k ≠ k') :
    2 * n ≤ 2 * n + 2 * k ∧ 2 * n + 2 * k ≠ 2 * n + 2 * k' ∧ 2 * n + 2 * k ≠ 2 * n + 2 * k' + 1 ∧
      2 * n + 2 * k + 1 ≠ 2 * n + 2 * k' :=
  Pq.DualRailEnc.aux_fresh n k k' h

theorem counters (n : Nat) (pre : List QOp) :
    (pre.foldl (stepOp n) {}).nMeasured = nMeasures pre ∧ (pre.foldl (stepOp n) {}).czIdx = pre.countP isTwo :=
  ⟨nMeasured_spec n pre, czIdx_spec n pre⟩

/-! non-vacuity -/
example : ∃ t1 : ℝ, 3 * Real.cos t1 ^ 2 = 1 := by
  refine ⟨Real.arccos (1 / Real.sqrt 3), ?_⟩
  have h3 : (0:ℝ) < Real.sqrt 3 := Real.sqrt_pos.mpr (by norm_num)
  have hle : (1:ℝ) / Real.sqrt 3 ≤ 1 := by
    rw [div_le_one h3]
    calc (1:ℝ) = Real.sqrt 1 := by simp
      _ ≤ Real.sqrt 3 := Real.sqrt_le_sqrt (by norm_num)
  rw [Real.cos_arccos (by have := div_pos one_pos h3; linarith) hle]
  rw [div_pow, Real.sq_sqrt (by norm_num : (0:ℝ) ≤ 3)]
  norm_num

end Pq.C19
