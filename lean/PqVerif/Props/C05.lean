import Mathlib.Tactic
import Mathlib.LinearAlgebra.Matrix.Permanent
import PqVerif.Model.PassiveProb

/-!
# C05 — passive-state probability interfaces agree with a unitary dilation (partial)

Proved: the expanded matrix used for lossy sampling is an isometry on the physical input modes
(so the ancilla-traced statistics are those of a lossless circuit) although it is NOT unitary;
the Gram-matrix probability formula reduces to `|perm|²` for overlap one (indistinguishable bosons)
and to `perm(|M|²)` for overlap zero (classical particles).  Not proved: that the coefficient-extraction
(Ryser) evaluation in the code equals `gramProb` marginalised over the dilation, non-negativity and
normalisation of the full table — these are checked against an independent dilation oracle.
-/
namespace Pq.C05
open Matrix BigOperators Pq.PassiveProb

variable {K : Type} [CommRing K] [StarRing K] {d n : Nat}

omit [StarRing K] in
theorem expandedLeft_inl (V U : Matrix (Fin d) (Fin d) K) (s c : Fin d → K) (a j : Fin d) :
    expandedLeft V U s c (Sum.inl a) j = (V * diagonal s * U) a j := rfl

omit [StarRing K] in
theorem expandedLeft_inr (V U : Matrix (Fin d) (Fin d) K) (s c : Fin d → K) (a j : Fin d) :
    expandedLeft V U s c (Sum.inr a) j = (diagonal c * U) a j := rfl

theorem expandedLeft_gram (V U : Matrix (Fin d) (Fin d) K) (s c : Fin d → K) :
    (expandedLeft V U s c)ᴴ * expandedLeft V U s c
      = (V * diagonal s * U)ᴴ * (V * diagonal s * U) + (diagonal c * U)ᴴ * (diagonal c * U) := by
  ext i j
  rw [Matrix.add_apply, Matrix.mul_apply, Matrix.mul_apply, Matrix.mul_apply, Fintype.sum_sum_type]
  simp only [conjTranspose_apply, expandedLeft_inl, expandedLeft_inr]

/-- the physical columns of `_prepare_interferometer_matrix_in_expanded_space` are orthonormal whenever
`V`, `U` are unitary and `s_i² + c_i² = 1` with real (self-adjoint) `s`, `c` -/
theorem dilation_isometry (V U : Matrix (Fin d) (Fin d) K) (s c : Fin d → K)
    (hV : Vᴴ * V = 1) (hU : Uᴴ * U = 1) (hs : ∀ i, star (s i) = s i) (hc : ∀ i, star (c i) = c i)
    (hsc : ∀ i, s i * s i + c i * c i = 1) :
    (expandedLeft V U s c)ᴴ * expandedLeft V U s c = 1 := by
  have hs' : star s = s := funext hs
  have hc' : star c = c := funext hc
  have h1 : (V * diagonal s * U)ᴴ * (V * diagonal s * U) = Uᴴ * (diagonal s * diagonal s) * U := by
    simp only [conjTranspose_mul, diagonal_conjTranspose, hs']
    calc Uᴴ * (diagonal s * Vᴴ) * (V * diagonal s * U)
        = Uᴴ * (diagonal s * (Vᴴ * V) * diagonal s) * U := by simp only [Matrix.mul_assoc]
      _ = _ := by rw [hV, Matrix.mul_one]
  have h2 : (diagonal c * U)ᴴ * (diagonal c * U) = Uᴴ * (diagonal c * diagonal c) * U := by
    simp only [conjTranspose_mul, diagonal_conjTranspose, hc', Matrix.mul_assoc]
  have h3 : diagonal s * diagonal s + diagonal c * diagonal c = (1 : Matrix (Fin d) (Fin d) K) := by
    rw [diagonal_mul_diagonal, diagonal_mul_diagonal, diagonal_add, ← diagonal_one]
    congr 1
    funext i
    exact hsc i
  rw [expandedLeft_gram, h1, h2, ← Matrix.add_mul, ← Matrix.mul_add, h3, Matrix.mul_one, hU]

/-- … while the full expanded matrix `[[Σ, C],[C, Σ]]` is not unitary in general (one mode, `s = c`,
`s² = 1/2` over ℚ would need `√2`; over the integers mod nothing — witness with `s = 3/5`, `c = 4/5`):
`Σ·C + C·Σ = 24/25 ≠ 0` -/
theorem expanded_not_unitary_witness :
    let s : ℚ := 3 / 5; let c : ℚ := 4 / 5
    s * s + c * c = 1 ∧ s * c + c * s ≠ 0 := by
  norm_num

/-- overlap one: indistinguishable bosons, `|perm M|²` -/
theorem indistinguishable_limit (M : Matrix (Fin n) (Fin n) K) :
    gramProb M (fun _ _ => 1) = M.permanent * star M.permanent := by
  rw [← permanent_transpose]
  simp only [permanent, transpose_apply, gramProb, mul_one, star_sum, star_prod,
    Finset.prod_mul_distrib, Finset.sum_mul_sum]

/-- overlap zero: classical particles, `perm(|M|²)` -/
theorem classical_limit (M : Matrix (Fin n) (Fin n) K) :
    gramProb M (1 : Matrix (Fin n) (Fin n) K) = (Matrix.of fun j k => M j k * star (M j k)).permanent := by
  rw [← permanent_transpose]
  simp only [permanent, transpose_apply, gramProb, Matrix.of_apply]
  refine Finset.sum_congr rfl fun σ _ => ?_
  rw [Finset.sum_eq_single σ]
  · simp
  · intro ρ _ hρ
    obtain ⟨j, hj⟩ : ∃ j, ρ j ≠ σ j := by
      by_contra h
      push Not at h
      exact hρ (Equiv.ext h)
    exact Finset.prod_eq_zero (Finset.mem_univ j) (by simp [Matrix.one_apply_ne hj])
  · intro h; exact absurd (Finset.mem_univ σ) h

/-- the formula is real (self-adjoint) for a Hermitian Gram matrix -/
theorem gramProb_real (M G : Matrix (Fin n) (Fin n) K) (hG : Gᴴ = G) :
    star (gramProb M G) = gramProb M G := by
  have hG' : ∀ a b, star (G a b) = G b a := fun a b => by
    have := congrFun (congrFun hG b) a
    simpa [conjTranspose_apply] using this
  simp only [gramProb, star_sum, star_prod, star_mul', star_star, hG']
  rw [Finset.sum_comm]
  refine Finset.sum_congr rfl fun σ _ => Finset.sum_congr rfl fun ρ _ => Finset.prod_congr rfl fun j _ => ?_
  ring

end Pq.C05
