import PqVerif.Lemmas.PermLaws
import PqVerif.Lemmas.PermSpec

/-!
# C04 — matrix-function kernels equal their combinatorial definitions (partial)

Proved here, about the algorithm model of `permanent_cpp` (`Model/Kernel.lean`): the binomial
helper, the exact incremental weight update, each job = the direct BBFG summands, the one-thread
value = the plain sum over all Gray codes, independence of the job partition, and the exact point
where the C `int` weight stops being exact.  Also proved (`permanent_eq_permSpec`): the model's value IS the permanent with multiplicities (Glynn's
formula).  NOT proved: the hafnian / torontonian / Pfaffian algorithms, and the equality of the `int`
kernel with the unbounded-integer model beyond the overflow guard — tied to the defining sums by exact
correspondence only (see DESIGN.md).
-/
namespace Pq.C04
open Pq.Kernel

theorem binomialCoeff_eq_choose (n k : Nat) : binomialCoeff n k = Nat.choose n k :=
  Pq.Kernel.binomialCoeff_eq_choose n k

theorem binomUpdate_exact (rest : Int) (m prev value : Nat) (hp : prev ≤ m) (hv : value ≤ m)
    (hadj : value = prev + 1 ∨ value + 1 = prev) :
    binomUpdate false (rest * (Nat.choose m prev : Int)) m prev value = rest * (Nat.choose m value : Int) :=
  Pq.Kernel.binomUpdate_exact rest m prev value hp hv hadj

variable {K : Type} [Field K]

theorem runJob_eq_sum (A : List (List K)) (mults cols : List Nat) (lo hi : Nat)
    (hA : Shaped A mults cols) (hlo : lo ≤ hi) (hhi : hi < total (mults.map (· + 1))) :
    runJob false A mults cols (mults.map (· + 1)) lo hi =
      ((List.range' lo (hi + 1 - lo)).map (term A mults cols (mults.map (· + 1)))).sum :=
  Pq.Kernel.runJob_eq_sum A mults cols lo hi hA hlo hhi

theorem permanent_one_thread_sum (A : List (List K)) (rows cols : List Nat)
    (hA : A.length = rows.length ∧ ∀ r ∈ A, r.length = cols.length) :
    permanent false 1 A rows cols =
      (let (A', rows') := splitRow A rows
       if rows'.sum ≠ cols.sum then none
       else if A'.length = 0 ∨ cols.length = 0 ∨ rows'.sum = 0 then some 1
       else if A'.length = 1 then some (colsumProd 1 (rowAt A' 0) cols)
       else
         let mults := rows'.drop 1
         let limits := mults.map (· + 1)
         some (((List.range (total limits)).map (term A' mults cols limits)).sum
                / powK (2 : K) (rows'.sum - 1))) :=
  Pq.Kernel.permanent_one_thread_sum A rows cols hA

theorem permanent_threads_independent (A : List (List K)) (rows cols : List Nat)
    (t₁ t₂ : Nat) (h₁ : 0 < t₁) (h₂ : 0 < t₂)
    (hA : A.length = rows.length ∧ ∀ r ∈ A, r.length = cols.length) :
    permanent false t₁ A rows cols = permanent false t₂ A rows cols :=
  Pq.Kernel.permanent_threads_independent A rows cols t₁ t₂ h₁ h₂ hA

/-- **the kernel computes the permanent**: the algorithm model of `permanent_cpp` returns the defining
sum over bijections between the expanded columns and the expanded rows, for every matrix, every
multiplicity pattern with equal totals and every thread count ≥ 1 (exact arithmetic, unbounded integer
weights; Glynn's formula with multiplicities is `Pq.Glynn.glynn_mult_gen`) -/
theorem permanent_eq_permSpec [CharZero K] {n m : Nat} (A : Fin n → Fin m → K) (rows : Fin n → Nat)
    (cols : Fin m → Nat) (threads : Nat) (ht : 0 < threads) (hsum : ∑ i, rows i = ∑ j, cols j) :
    permanent false threads (matList A) (vecList rows) (vecList cols) = some (permSpec A rows cols) :=
  Pq.Kernel.permanent_eq_permSpec A rows cols threads ht hsum

theorem permanent_none_of_ne {n m : Nat} (A : Fin n → Fin m → K) (rows : Fin n → Nat)
    (cols : Fin m → Nat) (threads : Nat) (hsum : ∑ i, rows i ≠ ∑ j, cols j) :
    permanent false threads (matList A) (vecList rows) (vecList cols) = none :=
  Pq.Kernel.permanent_none_of_ne A rows cols threads hsum

/-- C `int` arithmetic is exact while the values stay within 32 bits … -/
theorem wrap32_of_small (z : Int) (h1 : -2147483648 ≤ z) (h2 : z < 2147483648) : wrap32 z = z :=
  Pq.Kernel.wrap32_of_small z h1 h2

/-- … and is NOT from multiplicity 18 on two rows: `C(18,9)² = 2363904400 > 2³¹`.  The full-strength
property ("every multiplicity pattern") is therefore false for the current kernel; the failing
inputs are recorded as a known finding and recognised by the check through this very model
(`permanent true …` reproduces the kernel's wrong values). -/
theorem int32_overflow_witness :
    binomInit true [18, 18] [9, 9] ≠ binomInit false [18, 18] [9, 9] ∧
    binomInit false [18, 18] [9, 9] = 2363904400 :=
  Pq.Kernel.int32_overflow_witness

end Pq.C04
