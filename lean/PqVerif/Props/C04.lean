import PqVerif.Lemmas.PermLaws
import PqVerif.Lemmas.PermSpec
import PqVerif.Lemmas.HafEdgesLaws

/-!
# C04 — matrix-function kernels equal their combinatorial definitions (partial)

Proved here, about the algorithm model of `permanent_cpp` (`Model/Kernel.lean`): the binomial
helper, the exact incremental weight update, each job = the direct BBFG summands, the one-thread
value = the plain sum over all Gray codes, independence of the job partition, and the exact point
where the C `int` weight stops being exact.  Also proved (`permanent_eq_permSpec`): the model's value IS the permanent with multiplicities (Glynn's
formula).  For the power-trace hafnian with reductions the combinatorial skeleton is proved (`Model/HafEdges.lean`): every
admissible run of `match_occupation_numbers` terminates and its edge classes use each vertex exactly as often as the
occupation numbers say; `get_kept_edges` is an injective, complement-symmetric enumeration of the compressed Glynn
sign patterns whose weights add up to all `2^m` sign vectors.  NOT proved: the power-trace / torontonian / Pfaffian numerics, and the equality of the `int`
kernel with the unbounded-integer model beyond the overflow guard — tied to the defining sums by exact
correspondence only (see DESIGN.md).
-/
namespace Pq.C04
open Pq.Kernel

theorem binomialCoeff_eq_choose (n k : Nat) : binomialCoeff n k = Nat.choose n k :=
  Pq.Kernel.binomialCoeff_eq_choose n k

theorem binomUpdate_exact (rest : Int) (m prev value : Nat) (hp : prev ≤ m) (hv : value ≤ m)
    (hadj : value = prev + 1 ∨ value + 1 = prev) :
    binomUpdate false (rest * (Nat.choose m prev : Int)) m prev value = rest * (Nat.choose m value : Int) :=
  Pq.Kernel.binomUpdate_exact rest m prev value hp hv hadj

variable {K : Type} [Field K]

theorem runJob_eq_sum (A : List (List K)) (mults cols : List Nat) (lo hi : Nat)
    (hA : Shaped A mults cols) (hlo : lo ≤ hi) (hhi : hi < total (mults.map (· + 1))) :
    runJob false A mults cols (mults.map (· + 1)) lo hi =
      ((List.range' lo (hi + 1 - lo)).map (term A mults cols (mults.map (· + 1)))).sum :=
  Pq.Kernel.runJob_eq_sum A mults cols lo hi hA hlo hhi

theorem permanent_one_thread_sum (A : List (List K)) (rows cols : List Nat)
    (hA : A.length = rows.length ∧ ∀ r ∈ A, r.length = cols.length) :
    permanent false 1 A rows cols =
      (let (A', rows') := splitRow A rows
       if rows'.sum ≠ cols.sum then none
       else if A'.length = 0 ∨ cols.length = 0 ∨ rows'.sum = 0 then some 1
       else if A'.length = 1 then some (colsumProd 1 (rowAt A' 0) cols)
       else
         let mults := rows'.drop 1
         let limits := mults.map (· + 1)
         some (((List.range (total limits)).map (term A' mults cols limits)).sum
                / powK (2 : K) (rows'.sum - 1))) :=
  Pq.Kernel.permanent_one_thread_sum A rows cols hA

theorem permanent_threads_independent (A : List (List K)) (rows cols : List Nat)
    (t₁ t₂ : Nat) (h₁ : 0 < t₁) (h₂ : 0 < t₂)
    (hA : A.length = rows.length ∧ ∀ r ∈ A, r.length = cols.length) :
    permanent false t₁ A rows cols = permanent false t₂ A rows cols :=
  Pq.Kernel.permanent_threads_independent A rows cols t₁ t₂ h₁ h₂ hA

/-- **the kernel computes the permanent**: the algorithm model of `permanent_cpp` returns the defining
sum over bijections between the expanded columns and the expanded rows, for every matrix, every
multiplicity pattern with equal totals and every thread count ≥ 1 (exact arithmetic, unbounded integer
weights; Glynn's formula with multiplicities is `Pq.Glynn.glynn_mult_gen`) -/
theorem permanent_eq_permSpec [CharZero K] {n m : Nat} (A : Fin n → Fin m → K) (rows : Fin n → Nat)
    (cols : Fin m → Nat) (threads : Nat) (ht : 0 < threads) (hsum : ∑ i, rows i = ∑ j, cols j) :
    permanent false threads (matList A) (vecList rows) (vecList cols) = some (permSpec A rows cols) :=
  Pq.Kernel.permanent_eq_permSpec A rows cols threads ht hsum

theorem permanent_none_of_ne {n m : Nat} (A : Fin n → Fin m → K) (rows : Fin n → Nat)
    (cols : Fin m → Nat) (threads : Nat) (hsum : ∑ i, rows i ≠ ∑ j, cols j) :
    permanent false threads (matList A) (vecList rows) (vecList cols) = none :=
  Pq.Kernel.permanent_none_of_ne A rows cols threads hsum

/-- C `int` arithmetic is exact while the values stay within 32 bits … -/
theorem wrap32_of_small (z : Int) (h1 : -2147483648 ≤ z) (h2 : z < 2147483648) : wrap32 z = z :=
  Pq.Kernel.wrap32_of_small z h1 h2

/-- … and is NOT from multiplicity 18 on two rows: `C(18,9)² = 2363904400 > 2³¹`.  The full-strength
property ("every multiplicity pattern") is therefore false for the current kernel; the failing
inputs are recorded as a known finding and recognised by the check through this very model
(`permanent true …` reproduces the kernel's wrong values). -/
theorem int32_overflow_witness :
    binomInit true [18, 18] [9, 9] ≠ binomInit false [18, 18] [9, 9] ∧
    binomInit false [18, 18] [9, 9] = 2363904400 :=
  Pq.Kernel.int32_overflow_witness

/-! ### repeated-edge compression of the power-trace hafnian (`hafnian_with_reduction`) -/
section HafEdges
open Pq.HafEdges

/-- **the edge classes reproduce the occupation numbers**: for EVERY admissible run of
`match_occupation_numbers` (whatever `np.argsort` does with ties) on a vector of even total, each vertex `v` is an
endpoint of exactly `nvec[v]` edge copies, the classes hold `sum(nvec) / 2` edges (`dim_over_2`), and no class is empty -/
theorem match_edges_cover (nvec : List Nat) (es : List Edge) (fin : List Nat)
    (h : replay nvec es = some fin) (heven : nvec.sum % 2 = 0) :
    (∀ v, degree es v = HafEdges.get nvec v) ∧ (es.map (·.rep)).sum = nvec.sum / 2 ∧ ∀ e ∈ es, 0 < e.rep := by
  obtain ⟨h1, h2, h3, h4⟩ := replay_spec es nvec fin h
  have hf : fin.sum = 0 := by omega
  refine ⟨fun v => ?_, by omega, h4⟩
  have := h2 v
  have := get_le_sum fin v
  omega

/-- odd total (not used by the hafnian, which returns 0 before): exactly one vertex copy is left over -/
theorem match_edges_cover_odd (nvec : List Nat) (es : List Edge) (fin : List Nat)
    (h : replay nvec es = some fin) (hodd : nvec.sum % 2 = 1) :
    fin.sum = 1 ∧ (∀ v, degree es v + HafEdges.get fin v = HafEdges.get nvec v) := by
  obtain ⟨h1, h2, h3, _⟩ := replay_spec es nvec fin h
  exact ⟨by omega, h2⟩

/-- **termination** of `while sum(nvec) > 1`: every admissible round strictly decreases the remaining total
(so at most `sum(nvec) / 2` rounds run) and emits a non-empty class -/
theorem match_round_decreases (nvec : List Nat) (i j : Nat) (h : top2 nvec i j = true) (hs : 1 < nvec.sum) :
    (stepEdge nvec i j).1.sum < nvec.sum ∧ 0 < (stepEdge nvec i j).2.rep :=
  ⟨step_decreases nvec i j h hs, step_rep_pos nvec i j h hs⟩

/-- the single-vertex special case of the code -/
theorem match_single_vertex (n : Nat) (h : n % 2 = 0) :
    matchOcc [n] = [⟨n / 2, 0, 0⟩] ∧ degree (matchOcc [n]) 0 = n := by
  refine ⟨rfl, ?_⟩
  simp [matchOcc, degree]; omega

-- non-vacuity: the executable resolution of the choice is an admissible, complete run (kernel-evaluated samples;
-- the check replays the REAL function's runs through `replay` on every input it generates)
example : replay [3, 1, 2] (matchOcc [3, 1, 2]) = some [0, 0, 0] := by decide
example : replay [7, 1, 0, 2] (matchOcc [7, 1, 0, 2]) = some [0, 0, 0, 0] := by decide
example : replay [2, 2, 2, 1] (matchOcc [2, 2, 2, 1]) = some [0, 0, 1, 0] := by decide
example : (matchOcc [7, 1, 0, 2]).map (·.rep) = [3, 1, 1] := by decide

/-- `get_kept_edges`: every digit is a number of kept edges of its class (`0 … rep`) -/
theorem kept_edges_bounded (reps : List Nat) (idx : Nat) :
    Valid (reps.map (· + 1)) (keptEdges reps idx) :=
  valid_chainOf _ (by intro n hn; obtain ⟨r, _, rfl⟩ := List.mem_map.1 hn; omega) idx

/-- distinct loop indices below `prod(all_edges + 1)` give distinct sign patterns -/
theorem kept_edges_injective (reps : List Nat) (a b : Nat) (ha : a < patterns reps) (hb : b < patterns reps)
    (h : keptEdges reps a = keptEdges reps b) : a = b :=
  chainOf_inj _ (by intro n hn; obtain ⟨r, _, rfl⟩ := List.mem_map.1 hn; omega) a b
    (by rw [total_map_succ]; exact ha) (by rw [total_map_succ]; exact hb) h

/-- **why sweeping only `size = prod(all_edges + 1) // 2` indices is enough**: the mirrored index carries the
complementary pattern (`delta ↦ -delta`), so the second half of the range repeats the first up to the global sign -/
theorem kept_edges_complement (reps : List Nat) (idx : Nat) (h : idx < patterns reps) :
    keptEdges reps (patterns reps - 1 - idx) = List.zipWith (fun r k => r - k) reps (keptEdges reps idx) :=
  keptEdges_complement reps idx h

/-- the `combinatorial_factor`s of all compressed patterns add up to the `2^(number of edges)` sign vectors of the
uncompressed Glynn-type sum -/
theorem pattern_weights_total (reps : List Nat) :
    ((List.range (patterns reps)).map (fun idx => weight reps (keptEdges reps idx))).sum = 2 ^ reps.sum :=
  weight_total reps

end HafEdges

end Pq.C04
