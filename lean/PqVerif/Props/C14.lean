import PqVerif.Lemmas.GaussRepLaws

/-!
# C14 — Gaussian states are hbar-invariant and representation-consistent

Model: `Model/GaussRep.lean` (getters / setters of `GaussianState` as written, over any field of
characteristic 0).  Dimensionless observables are computed by the code from `cov / hbar` and
`mean / sqrt(hbar)` (or directly from `(m, C, G)`); the hbar-free mathematics behind them (det,
hafnians, …) is not modelled — the check evaluates it on the real class under several `hbar`.
-/
namespace Pq.C14
open Pq.GaussRep Matrix

variable {F : Type} [Field F] [CharZero F] {d k : Nat}

theorem get_set_cov (ħ : F) (h : ħ ≠ 0) (cov : Matrix (Fin d ⊕ Fin d) (Fin d ⊕ Fin d) F)
    (s : Rep F d) : xxppCov ħ (setXxppCov ħ cov s) = cov := Pq.GaussRep.get_set_cov ħ h cov s
theorem set_get_cov (ħ : F) (h : ħ ≠ 0) (s : Rep F d) : setXxppCov ħ (xxppCov ħ s) s = s :=
  Pq.GaussRep.set_get_cov ħ h s
theorem get_set_mean (r : F) (h : r ≠ 0) (v : Fin d ⊕ Fin d → F) (s : Rep F d) :
    xxppMean r (setXxppMean r v s) = v := Pq.GaussRep.get_set_mean r h v s
theorem set_get_mean (r : F) (h : r ≠ 0) (s : Rep F d) : setXxppMean r (xxppMean r s) s = s :=
  Pq.GaussRep.set_get_mean r h s
theorem cov_scaling (ħ : F) (s : Rep F d) : xxppCov ħ s = ħ • xxppCov 1 s :=
  Pq.GaussRep.cov_scaling ħ s
theorem mean_scaling (rh r2 : F) (s : Rep F d) :
    xxppMean (rh * r2) s = fun i => rh * xxppMean r2 s i := Pq.GaussRep.mean_scaling rh r2 s
theorem normalised_cov_hbar_free (ħ₁ ħ₂ : F) (h1 : ħ₁ ≠ 0) (h2 : ħ₂ ≠ 0) (s : Rep F d) :
    ħ₁⁻¹ • xxppCov ħ₁ s = ħ₂⁻¹ • xxppCov ħ₂ s :=
  Pq.GaussRep.normalised_cov_hbar_free ħ₁ ħ₂ h1 h2 s
theorem reduced_cov (ħ : F) (modes : Fin k → Fin d) (hinj : Function.Injective modes) (s : Rep F d) :
    xxppCov ħ (reduced modes s) = (xxppCov ħ s).submatrix (Sum.map modes modes) (Sum.map modes modes) :=
  Pq.GaussRep.reduced_cov ħ modes hinj s
theorem reduced_mean (r : F) (modes : Fin k → Fin d) (s : Rep F d) :
    xxppMean r (reduced modes s) = xxppMean r s ∘ Sum.map modes modes :=
  Pq.GaussRep.reduced_mean r modes s
theorem rotated_cov (ħ c sn : F) (hcs : c * c + sn * sn = 1) (s : Rep F d) :
    xxppCov ħ (rotated c sn s) = rotMat c sn * xxppCov ħ s * (rotMat c sn)ᵀ :=
  Pq.GaussRep.rotated_cov ħ c sn hcs s
theorem rotated_mean (r c sn : F) (s : Rep F d) :
    xxppMean r (rotated c sn s) = (rotMat c sn).mulVec (xxppMean r s) :=
  Pq.GaussRep.rotated_mean r c sn s
theorem complexCov_injective (s t : Rep F d) (hre : complexCovRe s = complexCovRe t)
    (him : complexCovIm s = complexCovIm t) :
    s.Cr = t.Cr ∧ s.Ci = t.Ci ∧ s.Gr = t.Gr ∧ s.Gi = t.Gi :=
  Pq.GaussRep.complexCov_injective s t hre him
theorem xpxp_xxpp_inverse (d t : Nat) (h : t < 2 * d) :
    xpxpToXxpp d (xxppToXpxp d t) = t ∧ xxppToXpxp d (xpxpToXxpp d t) = t ∧
    xxppToXpxp d t < 2 * d ∧ xpxpToXxpp d t < 2 * d :=
  Pq.GaussRep.xpxp_xxpp_inverse d t h

/-- the purity as the (repaired) code computes it: `hbar^d / sqrt(det cov)`, i.e. a function
`f` (`M ↦ 1 / sqrt(det M)`, opaque here) of `cov / hbar`, is the same for every `hbar`.
(With the former prefactor `2^d` this fails: `2^d / sqrt(det (ħ • M)) = (2/ħ)^d f(M)`.) -/
theorem purity_hbar_free {β : Type} (f : Matrix (Fin d ⊕ Fin d) (Fin d ⊕ Fin d) F → β)
    (ħ₁ ħ₂ : F) (h1 : ħ₁ ≠ 0) (h2 : ħ₂ ≠ 0) (s : Rep F d) :
    f (ħ₁⁻¹ • xxppCov ħ₁ s) = f (ħ₂⁻¹ • xxppCov ħ₂ s) := by
  rw [Pq.GaussRep.normalised_cov_hbar_free ħ₁ ħ₂ h1 h2 s]

end Pq.C14
