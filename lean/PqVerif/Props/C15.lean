import PqVerif.Lemmas.ClementsLaws
import PqVerif.Lemmas.DecompAlgebra

/-!
# C15 — matrix decompositions reconstruct their input (partial)

Proved.  *Clements*: the elimination schedule of `clements()` (model `ClementsSched.schedule`, compared with the real
loop on every run) keeps every zero it has produced and nulls the whole strict lower triangle — for EVERY input
matrix and whatever mixing matrices are used, as long as each step nulls its target (`elimination`; the
combinatorial side condition `schedOk d` is evaluated by the kernel for every `d ≤ 8`, the property asks for
`d ≤ 6`); the angles of `_get_angles` null their target; `BS(θ, φ)` is unitary; the commutation
`BS⁻¹ D = D' BS'` holds with the angles of `_get_commute_angles` for all real angles, and the list bookkeeping of
`_commute` moves all inverse beamsplitters through the phase layer; hence `inverse_clements (clements U) = U`
whenever the eliminated matrix is the phase layer, which it is for a unitary input (`unitary_lower_zero_diagonal`).
*Takagi / Williamson / Euler*: the glue code around SVD / Schur / sqrtm / polar is correct for EVERY output of these
routines that satisfies its contract — whichever basis they pick inside a degenerate subspace (repeated or zero
singular values, repeated symplectic values): the contracts are the hypotheses, re-checked on the recorded
intermediates of every real run.  *Graph embedding*: `sinh² (artanh x) = x² / (1 - x²)`.
NOT proved: that SciPy's routines meet their contracts, and floating-point accuracy (the `isclose` branches, the unitary
square root of a numerically degenerate `Z`) — this is where the defect fixed in this round lived (the branch cut of
the square root split clusters of equal eigenvalues), found by the search below, not by a theorem.
-/
namespace Pq.C15
open Matrix Pq.ClementsSched Pq.ClementsMat Pq.ClementsLaws Pq.DecompAlgebra

theorem schedule_sound : ∀ d, d ≤ 8 → schedOk d = true := schedOk_small

theorem elimination (d : Nat) (hok : schedOk d = true) (U0 : Matrix (Fin d) (Fin d) ℂ)
    (Gs : List (Matrix (Fin 2) (Fin 2) ℂ)) (hlen : Gs.length = (schedule d).length)
    (hnull : ∀ k (hk : k < (schedule d).length),
      entry (runSteps ((schedule d).take (k + 1)) (Gs.take (k + 1)) U0) ((schedule d)[k]).ti ((schedule d)[k]).tj = 0) :
    ∀ i j : Fin d, j < i → runSteps (schedule d) Gs U0 i j = 0 :=
  Pq.ClementsLaws.elimination d hok U0 Gs hlen hnull

theorem bs_unitary (theta phi : ℝ) : (bsMat theta phi)ᴴ * bsMat theta phi = 1 := bsMat_unitary theta phi

theorem nulling_row (a b : ℂ) (ha : a ≠ 0) :
    let r := -b / a
    (bsMat (Real.arctan ‖r‖) (Complex.arg r)) 1 0 * a + (bsMat (Real.arctan ‖r‖) (Complex.arg r)) 1 1 * b = 0 :=
  Pq.ClementsLaws.nulling_row a b ha

theorem nulling_col (a b : ℂ) (ha : a ≠ 0) :
    let r := b / a
    b * (bsMat (Real.arctan ‖r‖) (Complex.arg r))ᴴ 0 0 + a * (bsMat (Real.arctan ‖r‖) (Complex.arg r))ᴴ 1 0 = 0 :=
  Pq.ClementsLaws.nulling_col a b ha

theorem commute_cast (phases : List Rat) (bss : List BSq) :
    ((commute phases bss).1.map BSq.toR, (commute phases bss).2.map (fun q => (q : ℝ))) =
      commuteR (phases.map (fun q => (q : ℝ))) (bss.map BSq.toR) :=
  Pq.ClementsLaws.commute_cast phases bss

theorem commute_identity (theta phi phi1 phi2 : ℝ) :
    let r := commuteAnglesR theta phi phi1 phi2
    let e (x : ℝ) : ℂ := Complex.exp (Complex.I * (Real.pi * x))
    (bsMat (Real.pi * theta) (Real.pi * phi))ᴴ * Matrix.diagonal ![e phi1, e phi2] =
      Matrix.diagonal ![e r.2.2.1, e r.2.2.2] * bsMat (Real.pi * r.1) (Real.pi * r.2.1) :=
  Pq.ClementsLaws.commute_identity theta phi phi1 phi2

theorem commute_correct (d : Nat) (phases : List ℝ) (hlen : phases.length = d) (bss : List BSr)
    (hm : ∀ b ∈ bss, b.m0 + 1 < d) :
    bss.foldl (fun acc b => (bsOf (d := d) b)ᴴ * acc) (phaseDiag phases) =
      phaseDiag (commuteR phases bss).2 * (commuteR phases bss).1.foldl (fun acc b => bsOf (d := d) b * acc) 1 :=
  Pq.ClementsLaws.commute_correct d phases hlen bss hm

theorem clements_roundtrip (d : Nat) (U : Matrix (Fin d) (Fin d) ℂ) (lefts rights : List BSr) (phases : List ℝ)
    (hlen : phases.length = d) (hl : ∀ b ∈ lefts, b.m0 + 1 < d) (hr : ∀ b ∈ rights, b.m0 + 1 < d)
    (hD : lefts.foldl (fun acc b => bsOf (d := d) b * acc) 1 * U *
        rights.foldl (fun acc b => acc * (bsOf (d := d) b)ᴴ) 1 = phaseDiag phases) :
    inverseClements (d := d) (rights ++ (commuteR phases lefts.reverse).1) (commuteR phases lefts.reverse).2 = U :=
  Pq.ClementsLaws.clements_roundtrip d U lefts rights phases hlen hl hr hD

theorem unitary_lower_zero_diagonal (d : Nat) (U : Matrix (Fin d) (Fin d) ℂ) (hU : Uᴴ * U = 1)
    (hz : ∀ i j : Fin d, j < i → U i j = 0) : ∀ i j : Fin d, i ≠ j → U i j = 0 :=
  Pq.ClementsLaws.unitary_lower_zero_diagonal d U hU hz

section
variable {n : Type} [Fintype n] [DecidableEq n]

theorem takagi_Z_commutes (A V W : Matrix n n ℂ) (σ : n → ℝ) (hσ : ∀ i, 0 ≤ σ i)
    (hA : A = V * Matrix.diagonal (fun i => (σ i : ℂ)) * Wᴴ) (hsym : Aᵀ = A)
    (hV : Vᴴ * V = 1) (hW : Wᴴ * W = 1) :
    (Vᵀ * W) * Matrix.diagonal (fun i => (σ i : ℂ)) = Matrix.diagonal (fun i => (σ i : ℂ)) * (Vᵀ * W) :=
  Pq.DecompAlgebra.takagi_Z_commutes A V W σ hσ hA hsym hV hW

theorem takagi_reconstructs (A V W Q : Matrix n n ℂ) (σ : n → ℝ) (hσ : ∀ i, 0 ≤ σ i)
    (hA : A = V * Matrix.diagonal (fun i => (σ i : ℂ)) * Wᴴ) (hsym : Aᵀ = A)
    (hV : Vᴴ * V = 1) (hW : Wᴴ * W = 1) (hQ : Qᴴ * Q = 1)
    (hQc : Q * Matrix.diagonal (fun i => (σ i : ℂ)) = Matrix.diagonal (fun i => (σ i : ℂ)) * Q)
    (hQs : Matrix.diagonal (fun i => (σ i : ℂ)) * Qᵀ = Matrix.diagonal (fun i => (σ i : ℂ)) * Q)
    (hQ2 : Matrix.diagonal (fun i => (σ i : ℂ)) * (Q * Q) = Matrix.diagonal (fun i => (σ i : ℂ)) * (Vᵀ * W)) :
    let T := V * Q.map (starRingEnd ℂ)
    T * Matrix.diagonal (fun i => (σ i : ℂ)) * Tᵀ = A ∧ Tᴴ * T = 1 :=
  Pq.DecompAlgebra.takagi_reconstructs A V W Q σ hσ hA hsym hV hW hQ hQc hQs hQ2
end

theorem williamson_reconstructs {d : Type} [Fintype d] [DecidableEq d]
    (M R Rinv K B : Matrix (d ⊕ d) (d ⊕ d) ℝ) (δ ε : d → ℝ)
    (hR : R * R = M) (hRs : Rᵀ = R) (hRi : R * Rinv = 1)
    (hK : Kᵀ * K = 1) (hB : Bᵀ * B = 1) (hδ : ∀ i, 0 < δ i) (hε : ∀ i, ε i * ε i = δ i)
    (hschur : Bᵀ * Kᵀ * (Rinv * Matrix.fromBlocks 0 1 (-1) 0 * Rinv) * K * B =
      Matrix.fromBlocks 0 (Matrix.diagonal δ) (-Matrix.diagonal δ) 0) :
    let E : Matrix (d ⊕ d) (d ⊕ d) ℝ := Matrix.fromBlocks (Matrix.diagonal ε) 0 0 (Matrix.diagonal ε)
    let D : Matrix (d ⊕ d) (d ⊕ d) ℝ := Matrix.fromBlocks (Matrix.diagonal fun i => (δ i)⁻¹) 0 0 (Matrix.diagonal fun i => (δ i)⁻¹)
    let S := R * K * B * E
    S * D * Sᵀ = M ∧ Sᵀ * Matrix.fromBlocks 0 1 (-1) 0 * S = Matrix.fromBlocks 0 1 (-1) 0 :=
  Pq.DecompAlgebra.williamson_reconstructs M R Rinv K B δ ε hR hRs hRi hK hB hδ hε hschur

theorem euler_reconstructs {d : Type} [Fintype d] [DecidableEq d]
    (S P : Matrix (d ⊕ d) (d ⊕ d) ℂ) (U U0 : Matrix d d ℂ) (r : d → ℝ) (hU : U * Uᴴ = 1)
    (hpolar : S = P * Matrix.fromBlocks U0 0 0 (U0.map (starRingEnd ℂ)))
    (hP : P = Matrix.fromBlocks U 0 0 (U.map (starRingEnd ℂ)) *
      Matrix.fromBlocks (Matrix.diagonal fun i => ((Real.cosh (r i) : ℝ) : ℂ)) (Matrix.diagonal fun i => ((-Real.sinh (r i) : ℝ) : ℂ))
        (Matrix.diagonal fun i => ((-Real.sinh (r i) : ℝ) : ℂ)) (Matrix.diagonal fun i => ((Real.cosh (r i) : ℝ) : ℂ)) *
      (Matrix.fromBlocks U 0 0 (U.map (starRingEnd ℂ)))ᴴ) :
    S = Matrix.fromBlocks U 0 0 (U.map (starRingEnd ℂ)) *
      Matrix.fromBlocks (Matrix.diagonal fun i => ((Real.cosh (r i) : ℝ) : ℂ)) (Matrix.diagonal fun i => ((-Real.sinh (r i) : ℝ) : ℂ))
        (Matrix.diagonal fun i => ((-Real.sinh (r i) : ℝ) : ℂ)) (Matrix.diagonal fun i => ((Real.cosh (r i) : ℝ) : ℂ)) *
      Matrix.fromBlocks (Uᴴ * U0) 0 0 ((Uᴴ * U0).map (starRingEnd ℂ)) :=
  Pq.DecompAlgebra.euler_reconstructs S P U U0 r hU hpolar hP

theorem graph_mean_photon (x : ℝ) (hx : |x| < 1) :
    Real.sinh (Real.log ((1 + x) / (1 - x)) / 2) ^ 2 = x ^ 2 / (1 - x ^ 2) :=
  sinh_sq_artanh x hx

end Pq.C15
