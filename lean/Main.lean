import PqVerif.Driver.All
open Pq.Driver

def handlers : List Handler := [combHandler, exprHandler, engineHandler, programHandler, gaussHandler, gaussRepHandler, kernelHandler, rngHandler, indexHandler, fockRepHandler, samplerHandler, fermiHandler, dualRailHandler, clementsHandler, hafEdgesHandler]

def step (line : String) : String :=
  let toks := (line.trimAscii.toString.splitOn " ").filter (· ≠ "")
  match handlers.findSome? (fun h => h toks) with
  | some out => out
  | none => "bad-op"

partial def loop (h : IO.FS.Stream) : IO Unit := do
  let line ← h.getLine
  if line.isEmpty then return ()
  IO.println (step line)
  loop h

def main : IO Unit := do loop (← IO.getStdin)
